//! C03 — format literals are interpreted exactly as std::fmt interprets them.
//!
//! Stage A: derive_more's literal parser vs rustc_parse_format (via `fmtref`), placeholder by placeholder.
//! Stage B: effective (argument, trait) sequence incl. the implicit counter, observed black-box through the
//!          where-clause of a `Display` expansion on an all-generic struct.
//! Reject : a literal std rejects must reach the formatting macro (or be a derive error), never be delegated.
use super::core::*;
use super::dm::{self, Derive, Outcome};
use super::lit::*;
use super::tok;
use proptest::prelude::*;
use proptest::strategy::ValueTree;
use rayon::prelude::*;
use serde_json::{json, Value};

const RULE: &str = "literals: (1) exhaustive single-placeholder derivations of the std::fmt grammar \
(9 args x 10 fill/align x 3 sign x # x 0 x 6 widths x 6 precisions x 11 types x 5 trailing-ws (incl. U+3000), with and without ':' for empty specs), \
(1b) integers of every magnitude (3 digits .. beyond usize) as index / width / precision / `N$` parameter, (1c) whitespace between argument and colon over a reduced spec product, (2) one-edit neighbours of a seeded sample of (1), (3) all strings up to a length bound over a 28-symbol alphabet with 1-4 byte chars, \
(4) proptest sequences of placeholders/text/escapes, (5) corpus. Oracle: rustc_parse_format via fmtref. \
Non-trivial = std accepts it and it has >=1 placeholder, or std rejects it and it is within one edit of an accepted literal / derive_more's parser accepts it; distinct by literal text";

pub fn ref_parse_all(lits: &[String]) -> Result<Vec<RefParse>, String> {
    let n = lits.len();
    if n == 0 {
        return Ok(vec![]);
    }
    let chunk = (n / 32).clamp(1024, 200_000);
    let parts: Vec<Result<Vec<RefParse>, String>> = lits
        .par_chunks(chunk)
        .map(|c| {
            let mut r = FmtRef::start()?;
            r.parse_batch(c)
        })
        .collect();
    let mut out = Vec::with_capacity(n);
    for p in parts {
        out.extend(p?);
    }
    Ok(out)
}

pub fn enumerate_grammar() -> Vec<String> {
    // (names incl. one with a combining mark that is XID_Continue but not alphanumeric, and one with a character that is
    // alphanumeric but not XID_Continue)
    let args = ["", "0", "1", "12", "a", "_a", "é", "क्ष", "a²"];
    let fa = ["", "<", "^", ">", "*<", "<<", "0>", "é^", " >", "}<"];
    let sign = ["", "+", "-"];
    let alt = ["", "#"];
    let zero = ["", "0"];
    let width = ["", "5", "10", "1$", "w$", "0$"];
    let prec = ["", ".3", ".0", ".*", ".1$", ".p$"];
    // std skips `char::is_whitespace` characters: ASCII and multi-byte ones
    let ws = ["", " ", "\n", "  ", "\u{3000}"];
    let mut out = Vec::with_capacity(1_400_000);
    for a in args {
        for f in fa {
            for s in sign {
                for al in alt {
                    for z in zero {
                        for w in width {
                            for p in prec {
                                for t in TYPES {
                                    let spec = format!("{f}{s}{al}{z}{w}{p}{t}");
                                    for x in ws {
                                        if spec.is_empty() {
                                            out.push(format!("{{{a}{x}}}"));
                                        }
                                        out.push(format!("{{{a}:{spec}{x}}}"));
                                    }
                                }
                            }
                        }
                    }
                }
            }
        }
    }
    out
}

/// Integers beyond the small ones of `enumerate_grammar` in every position an integer can take (argument index, width,
/// precision, `N$` parameters): three digits, the `u16` limit std puts on counts, the `usize` limit of derive_more's own
/// `integer()` parser (beyond it that parser gives up on the whole literal), and one past each.
pub fn enumerate_big_integers() -> Vec<String> {
    let ints = ["99", "100", "255", "256", "300", "1000", "65535", "65536", "99999", "4294967295", "4294967296", "18446744073709551615", "18446744073709551616", "99999999999999999999999999", "007", "0000000000000000000000000001"];
    let tys = ["", "?", "x", "x?", "e"];
    let mut out = vec![];
    for n in ints {
        for t in tys {
            let colon = if t.is_empty() { "" } else { ":" };
            out.push(format!("{{{n}{colon}{t}}}"));
            out.push(format!("{{:{n}{t}}}"));
            out.push(format!("{{:0{n}{t}}}"));
            out.push(format!("{{:<{n}{t}}}"));
            out.push(format!("{{:.{n}{t}}}"));
            out.push(format!("{{:{n}.{n}{t}}}"));
            out.push(format!("{{:{n}${t}}}"));
            out.push(format!("{{:.{n}${t}}}"));
            out.push(format!("{{a:{n}{t}}}"));
            out.push(format!("{{0:{n}$.{n}${t}}}"));
            out.push(format!("{{}}{{:{n}{t}}}{{}}"));
        }
    }
    out
}

/// Whitespace between the argument and the colon (`{a :x}`, `{0\n:>5}`, `{ :?}`): std::fmt skips it, like the whitespace
/// before the closing brace. Systematic over a reduced spec product.
pub fn enumerate_ws_before_colon() -> Vec<String> {
    let args = ["", "0", "1", "12", "a", "_a", "é", "क्ष", "a²"];
    let wsc = [" ", "\n", "  ", "\u{3000}"];
    let fa = ["", "<", "*<", " >"];
    let sign = ["", "+"];
    let alt = ["", "#"];
    let zero = ["", "0"];
    let width = ["", "5", "w$", "0$"];
    let prec = ["", ".3", ".*", ".p$"];
    let ws = ["", " "];
    let mut out = vec![];
    for a in args {
        for c in wsc {
            for f in fa {
                for s in sign {
                    for al in alt {
                        for z in zero {
                            for w in width {
                                for p in prec {
                                    for t in TYPES {
                                        for x in ws {
                                            out.push(format!("{{{a}{c}:{f}{s}{al}{z}{w}{p}{t}{x}}}"));
                                        }
                                    }
                                }
                            }
                        }
                    }
                }
            }
        }
    }
    out
}

const ALPHABET: [&str; 28] = [
    "{", "}", ":", "0", "1", "9", "$", ".", "*", "#", "+", "-", "<", "^", ">", "?", "x", "X", "e", "p", "_", "a",
    "é", "→", "𝒳", " ", "\n", "\u{2003}",
];

pub fn short_strings(max_len: usize) -> Vec<String> {
    let mut out = vec![String::new()];
    let mut frontier = vec![String::new()];
    for _ in 0..max_len {
        let mut next = Vec::with_capacity(frontier.len() * ALPHABET.len());
        for f in &frontier {
            for a in ALPHABET {
                let mut s = f.clone();
                s.push_str(a);
                next.push(s);
            }
        }
        out.extend(next.iter().cloned());
        frontier = next;
    }
    out
}

fn one_edit_neighbours(base: &str, out: &mut Vec<String>) {
    let chars: Vec<char> = base.chars().collect();
    let alpha: Vec<char> = ALPHABET.iter().map(|s| s.chars().next().unwrap()).collect();
    for i in 0..=chars.len() {
        for &a in &alpha {
            let mut c = chars.clone();
            c.insert(i, a);
            out.push(c.iter().collect());
        }
    }
    for i in 0..chars.len() {
        let mut c = chars.clone();
        c.remove(i);
        out.push(c.iter().collect());
        for &a in &alpha {
            if a != chars[i] {
                let mut c = chars.clone();
                c[i] = a;
                out.push(c.iter().collect());
            }
        }
    }
}

fn arb_sequence() -> impl Strategy<Value = String> {
    let names = vec!["a".to_string(), "_a".to_string(), "é".to_string(), "w".to_string()];
    let ph = (
        prop_oneof![
            4 => Just(Arg::Implicit),
            2 => (0usize..4).prop_map(Arg::Index),
            2 => (0usize..3).prop_map({ let n = names.clone(); move |i| Arg::Name(n[i].clone()) }),
        ],
        arb_spec(names.clone(), 4, true),
    )
        .prop_map(|(arg, spec)| Piece::Ph(Ph { arg, spec }));
    let piece = prop_oneof![
        5 => ph,
        2 => "[a-z :,.$*#<>^é→ ]{0,4}".prop_map(Piece::Text),
        1 => Just(Piece::Open),
        1 => Just(Piece::Close),
    ];
    proptest::collection::vec(piece, 1..7).prop_map(|p| render(&p))
}

/// Stage A verdict for one literal. Returns a violation description if the parsers disagree.
fn stage_a(lit: &str, r: &RefParse) -> Option<(String, String)> {
    let Some(refv) = r.std_ok() else { return None };
    let d = dm::guarded(|| dm_view(lit));
    let d = match d {
        Ok(d) => d,
        Err(_) => return None, // panics are C18's business
    };
    match d {
        None => Some((format!("{refv:?}"), "derive_more's parser rejects the literal (None)".into())),
        Some(dv) => {
            if dv.len() != refv.len() {
                return Some((format!("{refv:?}"), format!("{dv:?}")));
            }
            for (a, b) in dv.iter().zip(refv.iter()) {
                if !a.same_as(b) {
                    return Some((format!("{refv:?}"), format!("{dv:?}")));
                }
            }
            None
        }
    }
}

fn ident_ok(s: &str) -> bool {
    syn::parse_str::<syn::Ident>(s).is_ok()
}

/// Stage B: effective (argument, trait) sequence through the Display expansion of an all-generic struct.
/// Returns Some((expected, observed)) on disagreement; None if agreed or not applicable.
fn stage_b(lit: &str, refv: &[PhView]) -> Option<(String, String)> {
    let mut names: Vec<String> = vec![];
    let mut max_idx: Option<usize> = None;
    let bump = |k: usize, m: &mut Option<usize>| {
        *m = Some(m.map_or(k, |x| x.max(k)));
    };
    for p in refv {
        match &p.pos {
            Pos::Implicit(Some(k)) | Pos::Index(k) => bump(*k, &mut max_idx),
            Pos::Implicit(None) => return None,
            Pos::Name(n) => {
                if !names.contains(n) {
                    names.push(n.clone())
                }
            }
        }
        for c in [&p.width, &p.prec] {
            match c {
                Cnt::ParamIdx(k) => bump(*k, &mut max_idx),
                Cnt::ParamName(n) => {
                    if !names.contains(n) {
                        names.push(n.clone())
                    }
                }
                _ => {}
            }
        }
    }
    // names of the form `_<digits>` denote positional fields for the derive (documented binding rule), so a
    // *named* field of that name is outside the documented domain
    let positional_like = |n: &str| n.strip_prefix('_').is_some_and(|r| !r.is_empty() && r.chars().all(|c| c.is_ascii_digit()));
    if max_idx.is_some_and(|m| m > 40)
        || names.iter().any(|n| !ident_ok(n) || n.starts_with("q") || n == "self" || positional_like(n))
    {
        return None;
    }
    let nq = max_idx.map_or(0, |m| m + 1);
    let mut generics = vec![];
    let mut fields = vec![];
    for (i, n) in names.iter().enumerate() {
        generics.push(format!("TN{i}"));
        fields.push(format!("{n}: TN{i}"));
    }
    let mut args = vec![];
    for i in 0..nq {
        generics.push(format!("TQ{i}"));
        fields.push(format!("q{i}: TQ{i}"));
        args.push(format!("q{i}"));
    }
    let lit_tok = proc_macro2::Literal::string(lit).to_string();
    let attr_args = if args.is_empty() { lit_tok } else { format!("{lit_tok}, {}", args.join(", ")) };
    let gen = if generics.is_empty() { String::new() } else { format!("<{}>", generics.join(", ")) };
    let src = format!("#[display({attr_args})] struct S{gen} {{ {} }}", fields.join(", "));
    let item: syn::DeriveInput = match syn::parse_str(&src) {
        Ok(i) => i,
        Err(_) => return None,
    };
    let expected: Vec<(String, String)> = refv
        .iter()
        .map(|p| {
            let t = match &p.pos {
                Pos::Implicit(Some(k)) | Pos::Index(k) => format!("TQ{k}"),
                Pos::Name(n) => format!("TN{}", names.iter().position(|x| x == n).unwrap()),
                Pos::Implicit(None) => unreachable!(),
            };
            (t, trait_of_ty(&p.ty).unwrap().to_string())
        })
        .collect();
    let out = dm::expand(Derive::by_name("Display").unwrap(), &item);
    let observed: Vec<(String, String)> = match &out {
        Outcome::Ok(ts) => {
            let impls = match tok::impls(ts) {
                Ok(i) => i,
                Err(e) => return Some((format!("{expected:?}"), e)),
            };
            let mut v = vec![];
            for i in impls.iter().filter(|i| tok::impl_trait_name(i).as_deref() == Some("Display")) {
                for (ty, bounds) in tok::where_preds(i) {
                    for b in bounds {
                        v.push((ty.clone(), b));
                    }
                }
            }
            v
        }
        Outcome::Err(e) => return Some((format!("{expected:?}"), format!("derive error: {e}"))),
        Outcome::Panic(_) => return None,
    };
    if observed != expected {
        Some((format!("{expected:?} for `{src}`"), format!("{observed:?}")))
    } else {
        None
    }
}

/// Reject clause: std rejects `lit`; the derive must not accept it silently. The only way to do so is
/// the delegation path (the literal is not handed to the formatting macro).
fn reject_check(lit: &str) -> Option<(String, String)> {
    let lit_tok = proc_macro2::Literal::string(lit).to_string();
    for src in [
        format!("#[display({lit_tok}, _0)] struct S(i32);"),
        format!("#[display({lit_tok})] struct S {{ a: i32, w: usize, p: usize }}"),
        format!("#[display({lit_tok}, a = _0)] struct S(i32);"),
    ] {
        let Ok(item) = syn::parse_str::<syn::DeriveInput>(&src) else { continue };
        match dm::expand(Derive::by_name("Display").unwrap(), &item) {
            Outcome::Ok(ts) => {
                if !tok::contains_str_lit(&ts, lit) {
                    return Some((
                        "derive error, or the literal handed to write!/format_args! so rustc rejects it".into(),
                        format!("`{src}` expands without the literal: {}", tok::norm(&ts.to_string())),
                    ));
                }
            }
            _ => {}
        }
    }
    None
}

struct Acc {
    ev: Evidence,
    viol: Vec<Violation>,
}

fn sig_for(stage: &str, lit: &str, refv: Option<&Vec<PhView>>) -> Option<String> {
    // defect models of recorded findings (only used if listed in known_findings.json)
    if stage == "A" {
        // whitespace before `}`: removing it makes the parsers agree
        let stripped = strip_ws_before_close(lit);
        if stripped != lit {
            if let (Some(dv), Some(rv)) = (dm_view(&stripped), refv) {
                if dv.len() == rv.len() && dv.iter().zip(rv).all(|(a, b)| a.same_as(b)) {
                    return Some("c03-ws-before-close".into());
                }
            }
        }
    }
    if stage == "A" && lit.contains('.') {
        // empty precision (`{:.}`, `{:.x}`, `{:5.}`): giving exactly the dots that are followed by an optional type and
        // the end of the placeholder a precision makes the parsers agree up to that precision. (The dot is not deleted:
        // `{:.}>` would become `{:}>`, where `}` reads as a fill character — a thorough run found that.)
        const MARK: usize = 65534;
        let chars: Vec<char> = lit.chars().collect();
        let mut cand = String::new();
        let mut removed = 0;
        for (i, c) in chars.iter().enumerate() {
            if *c == '.' {
                let mut k = i + 1;
                // optional type: `x?`, `X?`, `?`, or one of o x X p b e E
                if k + 1 < chars.len() && (chars[k] == 'x' || chars[k] == 'X') && chars[k + 1] == '?' {
                    k += 2;
                } else if k < chars.len() && "?oxXpbeE".contains(chars[k]) {
                    k += 1;
                }
                while k < chars.len() && chars[k].is_whitespace() {
                    k += 1;
                }
                if k < chars.len() && chars[k] == '}' {
                    removed += 1;
                    cand.push_str(".65534");
                    continue;
                }
            }
            cand.push(*c);
        }
        if removed > 0 {
            if let (Some(dv), Some(rv)) = (dm::guarded(|| dm_view(&cand)).ok().flatten(), refv) {
                let same = |a: &PhView, b: &PhView| {
                    a.same_as(b) || (a.prec == Cnt::Int(MARK) && b.prec == Cnt::None && {
                        let mut a2 = a.clone();
                        a2.prec = Cnt::None;
                        a2.same_as(b)
                    })
                };
                if dv.len() == rv.len() && dv.iter().zip(rv).all(|(a, b)| same(a, b)) {
                    return Some("c03-empty-precision".into());
                }
            }
        }
    }
    None
}

fn strip_ws_before_close(lit: &str) -> String {
    let mut out = String::new();
    let mut pending = String::new();
    for c in lit.chars() {
        if c == ' ' || c == '\n' || c == '\t' || c == '\r' {
            pending.push(c);
        } else {
            if c != '}' {
                out.push_str(&pending);
            }
            pending.clear();
            out.push(c);
        }
    }
    out.push_str(&pending);
    out
}

fn process(lits: &[String], refs: &[RefParse], source: &str, do_b: bool, sample_every: usize) -> Acc {
    let results: Vec<(usize, Option<(&'static str, String, String)>, bool)> = lits
        .par_iter()
        .zip(refs.par_iter())
        .enumerate()
        .map(|(i, (lit, r))| {
            let mut nontrivial = false;
            let mut viol = None;
            if let Some(refv) = r.std_ok() {
                nontrivial = !refv.is_empty();
                if let Some((e, o)) = stage_a(lit, r) {
                    viol = Some(("A", e, o));
                } else if do_b && !refv.is_empty() {
                    if let Some((e, o)) = stage_b(lit, refv) {
                        viol = Some(("B", e, o));
                    }
                }
            } else {
                // std rejects
                let d = dm::guarded(|| dm_view(lit)).ok().flatten();
                let bare = d.as_ref().is_some_and(|dv| dv.len() == 1 && !dv[0].has_modifiers());
                if d.is_some() {
                    nontrivial = true;
                }
                // The delegation decision has its own entry into the parser (`parsing::format()` + "nothing left"), so it
                // is probed for every rejected literal that begins like a placeholder — whatever
                // `format_string()` (observed through `dm_view`) says about it. Sound for *every* literal std rejects: an
                // expansion that succeeds has to hand the literal to the formatting macro.
                if bare || lit.starts_with('{') {
                    if let Some((e, o)) = reject_check(lit) {
                        viol = Some(("reject", e, o));
                        nontrivial = true;
                    }
                }
            }
            (i, viol, nontrivial)
        })
        .collect();
    let mut acc = Acc { ev: Evidence::new(RULE), viol: vec![] };
    for (i, viol, nontrivial) in results {
        acc.ev.eval(1);
        let lit = &lits[i];
        match &refs[i] {
            RefParse::Reject => acc.ev.label(&format!("{source}:std_rejects")),
            r if r.std_ok().is_some() => acc.ev.label(&format!("{source}:std_accepts")),
            _ => acc.ev.label(&format!("{source}:unknown_trait")),
        }
        if nontrivial {
            acc.ev.nontrivial(lit);
            if sample_every > 0 && i % sample_every == 0 {
                acc.ev.sample(json!({"source": source, "literal": lit}));
            }
        }
        if let Some((stage, e, o)) = viol {
            let sig = sig_for(stage, lit, refs[i].std_ok());
            acc.viol.push(Violation {
                sig,
                summary: format!("stage {stage}: literal {lit:?} interpreted differently from std"),
                case: json!({"stage": stage, "literal": lit}),
                expected: e,
                observed: o,
            });
        }
    }
    acc
}

fn corpus_literals(ctx: &Ctx) -> Vec<String> {
    let mut v = vec![];
    let dir = ctx.verif_dir.join("corpus/fmt_literal");
    if let Ok(rd) = std::fs::read_dir(dir) {
        let mut paths: Vec<_> = rd.filter_map(|e| e.ok()).map(|e| e.path()).collect();
        paths.sort();
        for p in paths {
            if let Ok(b) = std::fs::read(&p) {
                v.push(String::from_utf8_lossy(&b).to_string());
            }
        }
    }
    v
}

pub fn run(ctx: &Ctx) -> Report {
    let mut rep = Report::new(RULE);
    rep.evidence.max_samples = 12;
    rep.evidence.assumptions = vec![
        "rustc_parse_format of the installed nightly (1.97) is the reference for std::fmt's grammar; the grammar is stable across 1.95..1.97".into(),
        "private Placeholder list observed through the where-clause of in-process Display expansions".into(),
    ];
    let mut merge = |rep: &mut Report, acc: Acc| {
        rep.evidence.merge(acc.ev);
        rep.violations.extend(acc.viol);
    };
    let mut run_set = |rep: &mut Report, lits: Vec<String>, source: &str, do_b: bool, sample_every: usize| {
        match ref_parse_all(&lits) {
            Ok(refs) => {
                let acc = process(&lits, &refs, source, do_b, sample_every);
                merge(rep, acc);
            }
            Err(e) => rep.infra_errors.push(format!("fmtref: {e}")),
        }
    };

    // (1) exhaustive grammar derivations (both tiers)
    let g = enumerate_grammar();
    let glen = g.len();
    // stage B on a seeded subset (every k-th) in quick, all in thorough
    let mut runner = ctx.runner(0);
    let offset = (0usize..16).new_tree(&mut runner).map(|t| t.current()).unwrap_or(0);
    let stride = ctx.tier.pick(16, 1);
    let (gb, ga): (Vec<(usize, String)>, Vec<(usize, String)>) =
        g.into_iter().enumerate().partition(|(i, _)| (i + offset) % stride == 0);
    run_set(&mut rep, gb.into_iter().map(|x| x.1).collect(), "grammar", true, 150_001);
    run_set(&mut rep, ga.into_iter().map(|x| x.1).collect(), "grammar", false, 400_003);
    rep.evidence.set("grammar_derivations_enumerated", json!(glen));

    // (1b) integers of every magnitude in every integer position; (1c) whitespace before the colon
    let bi = enumerate_big_integers();
    rep.evidence.set("big_integer_literals_enumerated", json!(bi.len()));
    run_set(&mut rep, bi, "big_integer", true, 97);
    let wc = enumerate_ws_before_colon();
    rep.evidence.set("ws_before_colon_literals_enumerated", json!(wc.len()));
    let wstride = ctx.tier.pick(8, 1);
    let (wb, wa): (Vec<(usize, String)>, Vec<(usize, String)>) = wc.into_iter().enumerate().partition(|(i, _)| (i + offset) % wstride == 0);
    run_set(&mut rep, wb.into_iter().map(|x| x.1).collect(), "ws_before_colon", true, 40_009);
    run_set(&mut rep, wa.into_iter().map(|x| x.1).collect(), "ws_before_colon", false, 150_001);

    // (2) one-edit neighbours of a seeded sample of (1)
    let g = enumerate_grammar();
    let nbases = ctx.tier.pick(600, 12_000);
    let idx = draw(&mut runner, &(0..g.len()), nbases);
    let mut neigh = vec![];
    for t in idx {
        one_edit_neighbours(&g[t.current()], &mut neigh);
    }
    neigh.sort();
    neigh.dedup();
    run_set(&mut rep, neigh, "one_edit", true, 90_001);
    drop(g);

    // (3) all short strings
    let maxlen = ctx.tier.pick(4, 5);
    let ss = short_strings(maxlen);
    rep.evidence.set("short_strings_max_len", json!(maxlen));
    rep.evidence.set("short_strings_enumerated", json!(ss.len()));
    run_set(&mut rep, ss, "short", true, 100_003);

    // (4) sequences
    let nseq = ctx.tier.pick(20_000, 400_000);
    let seqs: Vec<String> = draw(&mut runner, &arb_sequence(), nseq).into_iter().map(|t| t.current()).collect();
    run_set(&mut rep, seqs, "sequence", true, 4_001);

    // (5) corpus
    let c = corpus_literals(ctx);
    if !c.is_empty() {
        run_set(&mut rep, c, "corpus", true, 7);
    }

    // Stage C: the reference itself (nightly rustc_parse_format) is cross-checked against the *stable* compiler on a
    // seeded sample: `format_args!(LIT, args..)` must compile iff the reference accepts the literal.
    {
        let nsample = ctx.tier.pick(400usize, 4000);
        let mut pool: Vec<String> = vec![];
        let g = enumerate_grammar();
        for t in draw(&mut runner, &(0..g.len()), nsample / 2) {
            pool.push(g[t.current()].clone());
        }
        let mut neigh = vec![];
        for t in draw(&mut runner, &(0..g.len()), 40) {
            one_edit_neighbours(&g[t.current()], &mut neigh);
        }
        for t in draw(&mut runner, &(0..neigh.len().max(1)), nsample / 4) {
            if let Some(x) = neigh.get(t.current()) {
                pool.push(x.clone());
            }
        }
        pool.extend(draw(&mut runner, &arb_sequence(), nsample / 4).into_iter().map(|t| t.current()));
        pool.sort();
        pool.dedup();
        match stage_c(ctx, &pool) {
            Ok((checked, disagreements, tally)) => {
                rep.evidence.set("stage_c_literals_compiled_by_stable_rustc", json!(checked));
                rep.evidence.set("stage_c_accepted_by_both", json!(tally[0]));
                rep.evidence.set("stage_c_rejected_by_both", json!(tally[1]));
                rep.evidence.set("stage_c_inconclusive", json!(tally[2]));
                rep.evidence.set("stage_c_reference_vs_stable_disagreements", json!(disagreements.len()));
                for (lit, what) in disagreements.into_iter().take(5) {
                    rep.infra_errors.push(format!("reference parser (nightly) and stable rustc disagree on literal {lit:?}: {what}"));
                }
            }
            Err(e) => rep.infra_errors.push(format!("stage C: {e}")),
        }
    }

    // E3: coverage-guided differential campaign (thorough tier): from the committed corpus and from an empty one
    if ctx.tier == Tier::Thorough {
        let secs: u64 = std::env::var("DMV_FUZZ_SECS").ok().and_then(|s| s.parse().ok()).unwrap_or(240);
        for from_empty in [false, true] {
            match super::fuzzrun::run_campaign(ctx, "fmt_literal", secs / 2, 8, from_empty) {
                Ok(c) => {
                    rep.evidence.add("fuzz_fmt_literal_executions", c.runs);
                    rep.evidence.eval(c.runs);
                    let lits: Vec<String> = c.crashes.iter().map(|b| String::from_utf8_lossy(b).to_string()).collect();
                    match ref_parse_all(&lits) {
                        Ok(refs) => {
                            let acc = process(&lits, &refs, "fuzz", true, 1);
                            rep.evidence.merge(acc.ev);
                            rep.violations.extend(acc.viol);
                        }
                        Err(e) => rep.infra_errors.push(format!("fmtref: {e}")),
                    }
                }
                Err(e) => rep.infra_errors.push(format!("fuzz campaign fmt_literal: {e}")),
            }
        }
    }

    rep.evidence.exhaustive = Some(false);
    rep.evidence.explanation = format!(
        "sub-spaces enumerated completely: the {glen} single-placeholder grammar derivations (stage A for all; stage B for {}), all strings of length <= {maxlen} over the 28-symbol alphabet; sampled: one-edit neighbours, sequences",
        if stride == 1 { "all".to_string() } else { format!("every {stride}th, offset by seed") }
    );
    shrink_violations(ctx, &mut rep);
    rep
}

/// Minimise each violating literal by deleting characters while the same stage still fails.
fn shrink_violations(ctx: &Ctx, rep: &mut Report) {
    let mut r = match FmtRef::start() {
        Ok(r) => r,
        Err(_) => return,
    };
    let mut seen = std::collections::HashSet::new();
    let mut out = vec![];
    let total = rep.violations.len();
    rep.evidence.set("raw_disagreements", json!(total));
    // shortest first; only a bounded number is minimised and reported (they collapse to few root causes)
    rep.violations.sort_by_key(|v| (v.case["literal"].as_str().map_or(0, |s| s.len()), v.case["literal"].to_string()));
    let mut per_stage: std::collections::HashMap<String, usize> = Default::default();
    let mut known_kept: std::collections::HashSet<String> = Default::default();
    for v in rep.violations.drain(..) {
        if let Some(sig) = v.sig.as_ref().filter(|s| ctx.is_known(s)) {
            // a recorded finding: counted, reported once (shortest witness), never crowds out other disagreements
            rep.evidence.add(&format!("known:{sig}"), 1);
            if known_kept.insert(sig.clone()) {
                out.push(v);
            }
            continue;
        }
        let st = v.case["stage"].as_str().unwrap_or("A").to_string();
        let n = per_stage.entry(st).or_insert(0);
        *n += 1;
        if *n > 40 {
            continue;
        }
        let stage = v.case["stage"].as_str().unwrap_or("A").to_string();
        let mut lit = v.case["literal"].as_str().unwrap_or("").to_string();
        let fails = |r: &mut FmtRef, s: &str| -> Option<(String, String)> {
            let rp = r.parse_batch(&[s.to_string()]).ok()?.pop()?;
            check_one(&stage, s, &rp)
        };
        let mut best = (v.expected.clone(), v.observed.clone());
        let mut progress = true;
        let mut budget = 400;
        while progress && budget > 0 {
            progress = false;
            let chars: Vec<char> = lit.chars().collect();
            for i in 0..chars.len() {
                budget -= 1;
                let mut c = chars.clone();
                c.remove(i);
                let cand: String = c.into_iter().collect();
                if let Some(eo) = fails(&mut r, &cand) {
                    lit = cand;
                    best = eo;
                    progress = true;
                    break;
                }
            }
        }
        if !seen.insert((stage.clone(), lit.clone())) {
            continue;
        }
        let rp = r.parse_batch(&[lit.clone()]).ok().and_then(|mut v| v.pop());
        let sig = rp.as_ref().and_then(|rp| sig_for(&stage, &lit, rp.std_ok())).or(v.sig.clone());
        out.push(Violation {
            sig,
            summary: format!("stage {stage}: literal {lit:?} interpreted differently from std"),
            case: json!({"stage": stage, "literal": lit}),
            expected: best.0,
            observed: best.1,
        });
    }
    rep.violations = out;
}

fn check_one(stage: &str, lit: &str, rp: &RefParse) -> Option<(String, String)> {
    match stage {
        "A" => stage_a(lit, rp),
        "B" => rp.std_ok().and_then(|rv| if stage_a(lit, rp).is_none() { stage_b(lit, rv) } else { None }),
        "reject" => {
            if rp.std_ok().is_some() {
                None
            } else {
                reject_check(lit)
            }
        }
        _ => None,
    }
}

/// Stage C: compiles `format_args!(LIT, args…)` with the stable toolchain for every literal and compares accept/reject
/// with the reference. Returns (number checked, disagreements).
fn stage_c(ctx: &Ctx, lits: &[String]) -> Result<(usize, Vec<(String, String)>, [usize; 3]), String> {
    use super::proggen::{build_and_run, CaseSrc, ProgSpec};
    let refs = ref_parse_all(lits)?;
    let spec = ProgSpec { name: "gen_c03".into(), prelude: String::new(), crate_attrs: String::new(), nightly: false, check_only: true, shards: 16 };
    let mut cases = vec![];
    let mut idx = vec![];
    for (i, (lit, r)) in lits.iter().zip(&refs).enumerate() {
        // arguments: enough positional ones, every name; count parameters get `usize`, values get `&usize`
        // (implements every formatting trait incl. Pointer)
        let (npos, names, counts_pos, counts_names) = match r {
            RefParse::Parsed(v) => {
                let mut npos = 0usize;
                let mut names: Vec<String> = vec![];
                let mut cpos: Vec<usize> = vec![];
                let mut cnames: Vec<String> = vec![];
                let mut skip = false;
                let mut implicit = 0usize;
                for p in v {
                    // rustc assigns implicit positions itself; mirror its counter (`.*` takes one more)
                    if p.prec == Cnt::Star {
                        cpos.push(implicit);
                        implicit += 1;
                    }
                    match &p.pos {
                        Pos::Implicit(_) => {
                            npos = npos.max(implicit + 1);
                            implicit += 1;
                        }
                        Pos::Index(k) => npos = npos.max(k + 1),
                        Pos::Name(n) => {
                            if !names.contains(n) {
                                names.push(n.clone())
                            }
                        }
                    }
                    for c in [&p.width, &p.prec] {
                        match c {
                            Cnt::ParamIdx(k) => {
                                npos = npos.max(k + 1);
                                cpos.push(*k);
                            }
                            Cnt::ParamName(n) => {
                                if !names.contains(n) {
                                    names.push(n.clone())
                                }
                                cnames.push(n.clone());
                            }
                            _ => {}
                        }
                    }
                    if npos > 64 {
                        skip = true;
                    }
                }
                npos = npos.max(implicit);
                if skip || names.iter().any(|n| !ident_ok(n)) {
                    continue;
                }
                // an argument used both as a count and as a `p` value cannot be satisfied by one type: skip those
                (npos, names, cpos, cnames)
            }
            RefParse::Reject => (2, vec!["a".to_string(), "w".to_string(), "p".to_string(), "_a".to_string(), "é".to_string()], vec![], vec![]),
        };
        let mut args: Vec<String> = (0..npos).map(|k| if counts_pos.contains(&k) { "1usize".to_string() } else { "&1usize".to_string() }).collect();
        for n in &names {
            args.push(format!("{n} = {}", if counts_names.contains(n) { "1usize" } else { "&1usize" }));
        }
        let lit_tok = proc_macro2::Literal::string(lit).to_string();
        let call = if args.is_empty() { format!("format!({lit_tok})") } else { format!("format!({lit_tok}, {})", args.join(", ")) };
        let negative = r.std_ok().is_none();
        cases.push(CaseSrc { body: format!("#[allow(unused)] pub fn f() -> String {{ {call} }}"), runnable: false, negative });
        idx.push(i);
    }
    let built = build_and_run(ctx, &spec, &cases)?;
    let mut dis = vec![];
    // [accepted by both, rejected by both, inconclusive (the sample's arguments did not fit)]
    let mut tally = [0usize; 3];
    for (k, i) in idx.iter().enumerate() {
        let r = &built.results[k];
        let std_ok = refs[*i].std_ok().is_some();
        if std_ok && r.compiled {
            tally[0] += 1;
        } else if !std_ok && !r.compiled {
            tally[1] += 1;
        } else if std_ok {
            tally[2] += 1;
        }
        if std_ok && !r.compiled {
            // an argument that is a count *and* a pointer/value, or an unused argument, is the sample's fault, not a disagreement
            let t = r.error_text();
            if t.contains("invalid format string") || t.contains("unknown format trait") {
                dis.push((lits[*i].clone(), format!("reference accepts, stable rustc rejects: {}", r.first_error())));
            }
        } else if !std_ok && r.compiled {
            dis.push((lits[*i].clone(), "reference rejects, stable rustc accepts".into()));
        }
    }
    Ok((idx.len(), dis, tally))
}

/// One literal against a reference parse (stage A, then B, then the reject clause): used by the fuzz target.
pub fn check_literal(lit: &str, rp: &RefParse) -> Option<(String, String, String, Option<String>)> {
    for stage in ["A", "B", "reject"] {
        if let Some((e, o)) = check_one(stage, lit, rp) {
            return Some((stage.to_string(), e, o, sig_for(stage, lit, rp.std_ok())));
        }
    }
    None
}

pub fn replay(_ctx: &Ctx, case: &Value) -> Report {
    let mut rep = Report::new(RULE);
    let stage = case["stage"].as_str().unwrap_or("A");
    let lit = case["literal"].as_str().unwrap_or("").to_string();
    rep.evidence.eval(1);
    match FmtRef::start().and_then(|mut r| r.parse_batch(&[lit.clone()])) {
        Ok(mut v) => {
            let rp = v.pop().unwrap();
            if let Some((e, o)) = check_one(stage, &lit, &rp) {
                rep.violations.push(Violation {
                    sig: sig_for(stage, &lit, rp.std_ok()),
                    summary: format!("stage {stage}: literal {lit:?} interpreted differently from std"),
                    case: case.clone(),
                    expected: e,
                    observed: o,
                });
            }
        }
        Err(e) => rep.infra_errors.push(e),
    }
    rep
}

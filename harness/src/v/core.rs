//! Shared infrastructure: run context, seeded proptest driving, shrinking, evidence, violations,
//! known findings.
use proptest::strategy::{Strategy, ValueTree};
use proptest::test_runner::{Config, RngSeed, TestRunner};
use serde_json::{json, Value};
use std::collections::{BTreeMap, HashSet};
use std::hash::{Hash, Hasher};
use std::path::PathBuf;
use std::time::Instant;

#[derive(Clone, Copy, Debug, PartialEq, Eq)]
pub enum Tier {
    Quick,
    Thorough,
}

impl Tier {
    pub fn name(self) -> &'static str {
        match self {
            Tier::Quick => "quick",
            Tier::Thorough => "thorough",
        }
    }
    /// `q` in the quick tier, `t` in the thorough tier.
    pub fn pick<T>(self, q: T, t: T) -> T {
        match self {
            Tier::Quick => q,
            Tier::Thorough => t,
        }
    }
}

pub struct Ctx {
    pub property: String,
    pub tier: Tier,
    pub seed: u64,
    pub verif_dir: PathBuf,
    pub work_dir: PathBuf,
    pub mirror: PathBuf,
    pub start: Instant,
    /// When set the generators exclude recorded known-finding input classes by construction.
    pub avoid_known: bool,
    pub known: Vec<KnownFinding>,
}

impl Ctx {
    pub fn runner(&self, round: u32) -> TestRunner {
        runner_for(self.seed, &self.property, round)
    }
    /// Is `sig` listed as a known (recorded, not repaired) finding of this property?
    pub fn is_known(&self, sig: &str) -> bool {
        self.known.iter().any(|k| k.status == "known" && k.property == self.property && k.signature == sig)
    }
    pub fn elapsed(&self) -> f64 {
        self.start.elapsed().as_secs_f64()
    }
}

pub fn fnv(s: &str) -> u64 {
    let mut h: u64 = 0xcbf29ce484222325;
    for b in s.bytes() {
        h ^= b as u64;
        h = h.wrapping_mul(0x100000001b3);
    }
    h
}

pub fn mix(seed: u64, property: &str, round: u32) -> u64 {
    let mut x = seed
        .wrapping_mul(0x9E3779B97F4A7C15)
        .wrapping_add(fnv(property))
        .wrapping_add((round as u64).wrapping_mul(0xD1B54A32D192ED03));
    x ^= x >> 31;
    x = x.wrapping_mul(0xBF58476D1CE4E5B9);
    x ^= x >> 29;
    x
}

pub fn runner_for(seed: u64, property: &str, round: u32) -> TestRunner {
    TestRunner::new(Config {
        rng_seed: RngSeed::Fixed(mix(seed, property, round)),
        failure_persistence: None,
        cases: 1,
        ..Config::default()
    })
}

/// Draws `n` value trees from `s`.
pub fn draw<S: Strategy>(runner: &mut TestRunner, s: &S, n: usize) -> Vec<S::Tree> {
    let mut v = Vec::with_capacity(n);
    for _ in 0..n {
        match s.new_tree(runner) {
            Ok(t) => v.push(t),
            Err(_) => {}
        }
    }
    v
}

/// Standard proptest shrink loop driven by hand: returns the smallest value for which `fails`
/// still holds (the tree's current value must fail on entry). `max_steps` bounds the number of
/// `fails` evaluations.
pub fn shrink<T: ValueTree>(
    tree: &mut T,
    mut fails: impl FnMut(&T::Value) -> bool,
    max_steps: usize,
) -> T::Value {
    let mut best = tree.current();
    let mut steps = 0;
    if !tree.simplify() {
        return best;
    }
    while steps < max_steps {
        steps += 1;
        let cur = tree.current();
        if fails(&cur) {
            best = cur;
            if !tree.simplify() {
                break;
            }
        } else if !tree.complicate() {
            break;
        }
    }
    best
}

pub fn hash_str(s: &str) -> u64 {
    let mut h = std::collections::hash_map::DefaultHasher::new();
    s.hash(&mut h);
    h.finish()
}

/// Monotone index map (shrinks toward earlier entries).
pub fn pick_idx(i: u16, len: usize) -> usize {
    ((i as usize) * len) >> 16
}

#[derive(Clone, Debug)]
pub struct Violation {
    /// Defect-model signature id if the observed behaviour is exactly what a recorded defect
    /// predicts (`known_findings.json`), otherwise `None`.
    pub sig: Option<String>,
    /// one-line description
    pub summary: String,
    /// replayable case
    pub case: Value,
    pub expected: String,
    pub observed: String,
}

pub struct Evidence {
    pub evaluations: u64,
    distinct: HashSet<u64>,
    pub labels: BTreeMap<String, u64>,
    pub samples: Vec<Value>,
    pub max_samples: usize,
    pub rule: String,
    pub extra: BTreeMap<String, Value>,
    pub assumptions: Vec<String>,
    pub exhaustive: Option<bool>,
    pub explanation: String,
}

impl Evidence {
    pub fn new(rule: &str) -> Evidence {
        Evidence {
            evaluations: 0,
            distinct: HashSet::new(),
            labels: BTreeMap::new(),
            samples: Vec::new(),
            max_samples: 10,
            rule: rule.to_string(),
            extra: BTreeMap::new(),
            assumptions: Vec::new(),
            exhaustive: None,
            explanation: String::new(),
        }
    }
    pub fn eval(&mut self, n: u64) {
        self.evaluations += n;
    }
    /// Records a non-trivial case by its canonical rendering.
    pub fn nontrivial(&mut self, canonical: &str) {
        self.distinct.insert(hash_str(canonical));
    }
    pub fn nontrivial_hash(&mut self, h: u64) {
        self.distinct.insert(h);
    }
    pub fn label(&mut self, l: &str) {
        *self.labels.entry(l.to_string()).or_insert(0) += 1;
    }
    pub fn label_n(&mut self, l: &str, n: u64) {
        *self.labels.entry(l.to_string()).or_insert(0) += n;
    }
    pub fn sample(&mut self, v: Value) {
        if self.samples.len() < self.max_samples {
            self.samples.push(v);
        }
    }
    pub fn distinct_nontrivial(&self) -> u64 {
        self.distinct.len() as u64
    }
    pub fn set(&mut self, k: &str, v: Value) {
        self.extra.insert(k.to_string(), v);
    }
    pub fn add(&mut self, k: &str, n: u64) {
        let cur = self.extra.get(k).and_then(|v| v.as_u64()).unwrap_or(0);
        self.extra.insert(k.to_string(), json!(cur + n));
    }
    pub fn merge(&mut self, o: Evidence) {
        self.evaluations += o.evaluations;
        self.distinct.extend(o.distinct);
        for (k, v) in o.labels {
            *self.labels.entry(k).or_insert(0) += v;
        }
        for s in o.samples {
            self.sample(s);
        }
        for (k, v) in o.extra {
            if let (Some(a), Some(b)) = (self.extra.get(&k).and_then(|x| x.as_u64()), v.as_u64()) {
                self.extra.insert(k, json!(a + b));
            } else {
                self.extra.insert(k, v);
            }
        }
    }
}

pub struct Report {
    pub evidence: Evidence,
    pub violations: Vec<Violation>,
    /// infrastructure problems: the run is inconclusive (exit 2), never a violation
    pub infra_errors: Vec<String>,
}

impl Report {
    pub fn new(rule: &str) -> Report {
        Report { evidence: Evidence::new(rule), violations: Vec::new(), infra_errors: Vec::new() }
    }
}

#[derive(Clone, Debug)]
pub struct KnownFinding {
    pub status: String,
    pub property: String,
    pub signature: String,
    pub what: String,
    pub commit: Option<String>,
}

pub fn load_known(verif_dir: &std::path::Path) -> Result<Vec<KnownFinding>, String> {
    let p = verif_dir.join("known_findings.json");
    if !p.exists() {
        return Ok(vec![]);
    }
    let text = std::fs::read_to_string(&p).map_err(|e| e.to_string())?;
    let v: Value = serde_json::from_str(&text).map_err(|e| format!("known_findings.json: {e}"))?;
    let mut out = vec![];
    for e in v["findings"].as_array().cloned().unwrap_or_default() {
        out.push(KnownFinding {
            status: e["status"].as_str().unwrap_or("").to_string(),
            property: e["property"].as_str().unwrap_or("").to_string(),
            signature: e["signature"].as_str().unwrap_or("").to_string(),
            what: e["what"].as_str().unwrap_or("").to_string(),
            commit: e["commit"].as_str().map(|s| s.to_string()),
        });
    }
    Ok(out)
}

//! Command line: `dmv <ID> [--tier quick|thorough] [--seed N] [--replay FILE]`
//! Exit codes: 0 held (known findings printed), 1 unlisted violation, 2 infrastructure/inconclusive.
use super::core::*;
use serde_json::{json, Value};
use std::collections::BTreeMap;
use std::path::PathBuf;
use std::time::Instant;

pub fn main() -> i32 {
    let args: Vec<String> = std::env::args().skip(1).collect();
    if args.is_empty() {
        eprintln!("usage: dmv <ID>|worker ... ");
        return 2;
    }
    if args[0] == "worker" {
        return super::worker::main(&args[1..]);
    }
    let property = args[0].to_uppercase();
    let mut tier = match std::env::var("VERIF_TIER").ok().as_deref() {
        Some("thorough") => Tier::Thorough,
        _ => Tier::Quick,
    };
    let mut seed: u64 = std::env::var("VERIF_SEED")
        .ok()
        .and_then(|s| s.trim().parse::<i128>().ok())
        .map(|v| v as u64)
        .unwrap_or(0);
    let mut replay: Option<PathBuf> = None;
    let mut avoid_known = false;
    let mut i = 1;
    while i < args.len() {
        match args[i].as_str() {
            "--tier" => {
                i += 1;
                tier = match args.get(i).map(|s| s.as_str()) {
                    Some("thorough") => Tier::Thorough,
                    Some("quick") => Tier::Quick,
                    o => {
                        eprintln!("bad tier {o:?}");
                        return 2;
                    }
                };
            }
            "--seed" => {
                i += 1;
                seed = args.get(i).and_then(|s| s.parse::<i128>().ok()).map(|v| v as u64).unwrap_or(0);
            }
            "--replay" => {
                i += 1;
                replay = args.get(i).map(PathBuf::from);
            }
            "--avoid-known" => avoid_known = true,
            o => {
                eprintln!("unknown argument {o}");
                return 2;
            }
        }
        i += 1;
    }
    let verif_dir = PathBuf::from(std::env::var("DMV_VERIF").unwrap_or_else(|_| "/verif".into()));
    let work_dir = PathBuf::from(
        std::env::var("DMV_WORK").unwrap_or_else(|_| verif_dir.join(".work").display().to_string()),
    );
    let mirror = super::dm::mirror_dir();
    let known = match load_known(&verif_dir) {
        Ok(k) => k,
        Err(e) => {
            println!("INFRA: {e}");
            return 2;
        }
    };
    let ctx = Ctx {
        property: property.clone(),
        tier,
        seed,
        verif_dir: verif_dir.clone(),
        work_dir,
        mirror,
        start: Instant::now(),
        avoid_known,
        known: known.clone(),
    };
    if let Err(e) = super::dm::crosscheck_table() {
        println!("INFRA: {e}");
        return 2;
    }

    let report = if let Some(path) = &replay {
        let text = match std::fs::read_to_string(path) {
            Ok(t) => t,
            Err(e) => {
                println!("INFRA: cannot read replay file {}: {e}", path.display());
                return 2;
            }
        };
        let v: Value = match serde_json::from_str(&text) {
            Ok(v) => v,
            Err(e) => {
                println!("INFRA: bad replay file: {e}");
                return 2;
            }
        };
        super::props::replay(&ctx, &v["case"])
    } else {
        super::props::run(&ctx)
    };
    let Some(report) = report else {
        println!("INFRA: unknown property {property}");
        return 2;
    };
    finish(&ctx, report, &known, replay.is_some())
}

fn finish(ctx: &Ctx, report: Report, known: &[KnownFinding], is_replay: bool) -> i32 {
    let id = &ctx.property;
    let mut unlisted: Vec<&Violation> = vec![];
    let mut known_hits: BTreeMap<String, (u64, String)> = BTreeMap::new();
    for v in &report.violations {
        let listed = v.sig.as_ref().and_then(|s| {
            known
                .iter()
                .find(|k| k.status == "known" && &k.property == id && &k.signature == s)
        });
        match listed {
            Some(k) => {
                let e = known_hits.entry(k.signature.clone()).or_insert((0, k.what.clone()));
                e.0 += 1;
            }
            None => unlisted.push(v),
        }
    }
    // de-duplicate unlisted violations by (sig, summary)
    let mut seen = std::collections::HashSet::new();
    let mut reported = 0usize;
    let rep_dir = ctx.verif_dir.join("replays").join(id);
    for v in &unlisted {
        let key = format!("{:?}|{}", v.sig, v.summary);
        if !seen.insert(key.clone()) {
            continue;
        }
        reported += 1;
        if reported > 25 {
            continue;
        }
        let _ = std::fs::create_dir_all(&rep_dir);
        let h = hash_str(&format!("{key}|{}", v.case));
        let path = rep_dir.join(format!("{:016x}.json", h));
        let doc = json!({
            "property": id,
            "seed": ctx.seed,
            "tier": ctx.tier.name(),
            "signature": v.sig,
            "summary": v.summary,
            "case": v.case,
            "expected": v.expected,
            "observed": v.observed,
        });
        let _ = std::fs::write(&path, serde_json::to_string_pretty(&doc).unwrap());
        println!("VIOLATION property={} replay={}", id, path.display());
        println!("  summary: {}", v.summary);
        println!("  expected: {}", trunc(&v.expected, 400));
        println!("  observed: {}", trunc(&v.observed, 400));
    }
    for (sig, (n, what)) in &known_hits {
        println!("KNOWN-FINDING: property={id} {sig}: {what} (hit {n} times)");
    }
    for e in &report.infra_errors {
        println!("INFRA: {e}");
    }

    let ev = &report.evidence;
    if !is_replay {
        let mut cov = serde_json::Map::new();
        cov.insert("evaluations".into(), json!(ev.evaluations));
        cov.insert("distinct_nontrivial".into(), json!(ev.distinct_nontrivial()));
        cov.insert("rule".into(), json!(ev.rule));
        cov.insert("samples".into(), json!(ev.samples));
        cov.insert("labels".into(), json!(ev.labels));
        if let Some(x) = ev.exhaustive {
            cov.insert("exhaustive".into(), json!(x));
        }
        if !ev.explanation.is_empty() {
            cov.insert("explanation".into(), json!(ev.explanation));
        }
        cov.insert("checked_tree".into(), json!(std::env::var("DM_REPO").unwrap_or_else(|_| "/repo".into())));
        cov.insert("known_finding_hits".into(), json!(known_hits.iter().map(|(k, v)| (k.clone(), v.0)).collect::<BTreeMap<_, _>>()));
        for (k, v) in &ev.extra {
            cov.insert(k.clone(), v.clone());
        }
        let doc = json!({
            "property_id": id,
            "tier": ctx.tier.name(),
            "seed": ctx.seed as i64,
            "level": "exploration",
            "coverage": Value::Object(cov),
            "assumptions": ev.assumptions,
            "wall_s": ctx.elapsed(),
            "violations": seen.len(),
        });
        // (runs against scratch copies of the code — mutants, seeded changes — set DMV_EVIDENCE_DIR so that the committed
        // evidence only ever describes runs against $DM_REPO = /repo)
        let dir = std::env::var("DMV_EVIDENCE_DIR").map(std::path::PathBuf::from).unwrap_or_else(|_| ctx.verif_dir.join("evidence"));
        let _ = std::fs::create_dir_all(&dir);
        let path = dir.join(format!("{id}.json"));
        if let Err(e) = std::fs::write(&path, serde_json::to_string_pretty(&doc).unwrap()) {
            println!("INFRA: cannot write evidence: {e}");
            return 2;
        }
    }
    println!(
        "{} tier={} seed={} evaluations={} distinct_nontrivial={} violations={} known_hits={} wall={:.1}s",
        id,
        ctx.tier.name(),
        ctx.seed,
        ev.evaluations,
        ev.distinct_nontrivial(),
        seen.len(),
        known_hits.values().map(|v| v.0).sum::<u64>(),
        ctx.elapsed()
    );
    if !seen.is_empty() {
        1
    } else if !report.infra_errors.is_empty() {
        2
    } else {
        0
    }
}

fn trunc(s: &str, n: usize) -> String {
    if s.chars().count() <= n {
        s.to_string()
    } else {
        let t: String = s.chars().take(n).collect();
        format!("{t}…")
    }
}

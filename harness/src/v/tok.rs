//! Token-level helpers for in-process expansions (public signature of generated impls).
use proc_macro2::{TokenStream, TokenTree};
use quote::ToTokens;

/// All `impl` items of an expansion, including those nested in `const _: () = { .. };` blocks.
pub fn impls(ts: &TokenStream) -> Result<Vec<syn::ItemImpl>, String> {
    let file: syn::File = syn::parse2(ts.clone()).map_err(|e| format!("expansion does not re-parse: {e}"))?;
    let mut out = vec![];
    fn walk(items: &[syn::Item], out: &mut Vec<syn::ItemImpl>) {
        for it in items {
            match it {
                syn::Item::Impl(i) => out.push(i.clone()),
                syn::Item::Const(c) => {
                    if let syn::Expr::Block(b) = &*c.expr {
                        let items: Vec<syn::Item> = b
                            .block
                            .stmts
                            .iter()
                            .filter_map(|s| match s {
                                syn::Stmt::Item(i) => Some(i.clone()),
                                _ => None,
                            })
                            .collect();
                        walk(&items, out);
                    }
                }
                syn::Item::Mod(m) => {
                    if let Some((_, items)) = &m.content {
                        walk(items, out);
                    }
                }
                _ => {}
            }
        }
    }
    walk(&file.items, &mut out);
    Ok(out)
}

pub fn norm(s: &str) -> String {
    s.split_whitespace().collect::<Vec<_>>().join(" ")
}

pub fn ts_string(t: &impl ToTokens) -> String {
    norm(&t.to_token_stream().to_string())
}

/// Last path segment (without generic arguments) of a trait bound / path.
pub fn last_segment(p: &syn::Path) -> String {
    p.segments.last().map(|s| s.ident.to_string()).unwrap_or_default()
}

/// (bounded type tokens, trait last-segment names) for each `Type: Bounds` predicate, in order.
pub fn where_preds(i: &syn::ItemImpl) -> Vec<(String, Vec<String>)> {
    let mut out = vec![];
    if let Some(w) = &i.generics.where_clause {
        for p in &w.predicates {
            if let syn::WherePredicate::Type(t) = p {
                let ty = ts_string(&t.bounded_ty);
                let bounds = t
                    .bounds
                    .iter()
                    .map(|b| match b {
                        syn::TypeParamBound::Trait(tb) => last_segment(&tb.path),
                        other => ts_string(other),
                    })
                    .collect();
                out.push((ty, bounds));
            }
        }
    }
    out
}

/// Name of the implemented trait (last segment), if a trait impl.
pub fn impl_trait_name(i: &syn::ItemImpl) -> Option<String> {
    i.trait_.as_ref().map(|(_, p, _)| last_segment(p))
}

/// Does the stream contain (at any depth) a string literal token whose value equals `s`?
pub fn contains_str_lit(ts: &TokenStream, s: &str) -> bool {
    for tt in ts.clone() {
        match tt {
            TokenTree::Group(g) => {
                if contains_str_lit(&g.stream(), s) {
                    return true;
                }
            }
            TokenTree::Literal(l) => {
                if let Ok(ls) = syn::parse_str::<syn::LitStr>(&l.to_string()) {
                    if ls.value() == s {
                        return true;
                    }
                }
            }
            _ => {}
        }
    }
    false
}

/// Flattened token strings of a stream (groups become open/close delimiter tokens).
pub fn flat(ts: &TokenStream, out: &mut Vec<String>) {
    for tt in ts.clone() {
        match tt {
            TokenTree::Group(g) => {
                let (o, c) = match g.delimiter() {
                    proc_macro2::Delimiter::Parenthesis => ("(", ")"),
                    proc_macro2::Delimiter::Brace => ("{", "}"),
                    proc_macro2::Delimiter::Bracket => ("[", "]"),
                    proc_macro2::Delimiter::None => ("", ""),
                };
                if !o.is_empty() {
                    out.push(o.to_string());
                }
                flat(&g.stream(), out);
                if !c.is_empty() {
                    out.push(c.to_string());
                }
            }
            TokenTree::Punct(p) => {
                // keep joint punctuation glued so `::` / `>>` / `==` stay distinguishable
                let mut s = p.as_char().to_string();
                if p.spacing() == proc_macro2::Spacing::Joint {
                    s.push('\u{200d}');
                }
                out.push(s);
            }
            other => out.push(other.to_string()),
        }
    }
}

pub fn flat_vec(ts: &TokenStream) -> Vec<String> {
    let mut v = vec![];
    flat(ts, &mut v);
    v
}

/// Is `needle` a contiguous subsequence of `hay`?
pub fn contains_seq(hay: &[String], needle: &[String]) -> bool {
    if needle.is_empty() {
        return true;
    }
    hay.windows(needle.len()).any(|w| w == needle)
}

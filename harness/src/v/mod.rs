pub mod cli;
pub mod core;
pub mod dm;
pub mod lit;
pub mod proggen;
pub mod progprop;
pub mod props;
pub mod tok;
pub mod worker;

pub mod p03;
pub mod p02;

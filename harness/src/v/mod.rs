pub mod cli;
pub mod core;
pub mod dm;
pub mod lit;
pub mod props;
pub mod tok;
pub mod worker;

pub mod p03;

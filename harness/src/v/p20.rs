//! C20 — (stub; to be implemented, see DESIGN.md section 5 and HARNESS.md)
use super::core::*;
use serde_json::Value;

pub fn run(_ctx: &Ctx) -> Report {
    let mut rep = Report::new("stub");
    rep.infra_errors.push("C20 not implemented yet".into());
    rep
}

pub fn replay(_ctx: &Ctx, _case: &Value) -> Report {
    Report::new("stub")
}

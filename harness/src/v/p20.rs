//! C20 — every cargo feature of derive_more works on its own and in combination, with and without `std`.
//!
//! Engine E4 (configuration matrix): no generated derive programs; `cargo` is run on the *mirror* of the tree
//! under test (`ctx.mirror`, never `/repo` itself) with generated feature sets, each worker slot with a private
//! `CARGO_TARGET_DIR` below `ctx.work_dir`.
//!
//! Oracle per feature set F (DESIGN.md section 5, C20):
//!  1. `cargo check -p derive_more-impl --no-default-features --features F'` and
//!     `cargo check -p derive_more --no-default-features --features F` finish without *errors* (warnings are not
//!     judged: the statement says "builds without errors", and the installed rustc is newer than the pinned one).
//!  2. a generated probe crate depending on the mirror with exactly the features F contains one line per exported
//!     item (derive macros at the crate root, in `derive::` and in `with_trait::`, the std traits of `with_trait::`,
//!     the helper error types, the `__private` helpers); the set of lines rustc cannot resolve must be exactly the
//!     items of the features that are *not* enabled (table `probes()`, grounded in README / impl/doc / src/lib.rs).
//!  3. `cargo test -p derive_more --no-default-features --features F --lib --test <t>...` passes for every test
//!     program of the repository whose `required-features` are satisfied by F (the selection cargo itself makes for
//!     `--tests`; `compile_fail` (trybuild) is excluded: it cannot run offline and fails in the baseline).
//!
//! Replay case: `{"features": [...], "std": bool}`.
use super::core::*;
use super::dm::DERIVES;
use proptest::prelude::*;
use proptest::strategy::ValueTree;
use proptest::test_runner::TestRunner;
use serde_json::{json, Value};
use std::collections::{BTreeMap, BTreeSet};
use std::io::Read;
use std::path::{Path, PathBuf};
use std::process::{Command, Stdio};
use std::sync::atomic::{AtomicUsize, Ordering};
use std::sync::Mutex;
use std::time::{Duration, Instant};

const RULE: &str = "a configuration counts as non-trivial when at most two derive features are enabled or `std` is off \
(`full` + `std` is the one configuration the pinned suite already runs)";

/// Test targets that are never selected (see module doc).
const EXCLUDED_TESTS: &[&str] = &["compile_fail"];

// ------------------------------------------------------------------------------------------------------------
// feature sets
// ------------------------------------------------------------------------------------------------------------

#[derive(Clone, Debug, PartialEq, Eq, PartialOrd, Ord, Hash)]
pub struct FeatSet {
    /// facade features other than `std` (derive features or `full`), sorted
    pub feats: Vec<String>,
    pub std: bool,
}

impl FeatSet {
    fn new(mut feats: Vec<String>, std: bool) -> FeatSet {
        feats.sort();
        feats.dedup();
        FeatSet { feats, std }
    }
    fn key(&self) -> String {
        format!("{}{}", self.feats.join("+"), if self.std { " +std" } else { " -std" })
    }
    fn to_json(&self) -> Value {
        json!({"features": self.feats, "std": self.std})
    }
    fn from_json(v: &Value) -> Option<FeatSet> {
        let feats: Vec<String> = v["features"].as_array()?.iter().filter_map(|x| x.as_str().map(|s| s.to_string())).collect();
        if feats.is_empty() {
            return None;
        }
        Some(FeatSet::new(feats, v["std"].as_bool().unwrap_or(false)))
    }
    fn facade_arg(&self) -> String {
        let mut v = self.feats.clone();
        if self.std {
            v.push("std".into());
        }
        v.join(",")
    }
    fn impl_arg(&self) -> String {
        self.feats.join(",")
    }
}

// ------------------------------------------------------------------------------------------------------------
// what the tree under test declares (cargo metadata of the mirror)
// ------------------------------------------------------------------------------------------------------------

struct Tree {
    /// the facade features that forward to `derive_more-impl/<same name>`
    derive_features: Vec<String>,
    facade_graph: BTreeMap<String, Vec<String>>,
    /// (test target name, required-features)
    tests: Vec<(String, Vec<String>)>,
}

impl Tree {
    /// All facade features enabled by the set (transitively), `std` included when on.
    fn closure(&self, set: &FeatSet) -> BTreeSet<String> {
        let mut out = BTreeSet::new();
        let mut todo: Vec<String> = set.feats.clone();
        if set.std {
            todo.push("std".into());
        }
        while let Some(f) = todo.pop() {
            if !out.insert(f.clone()) {
                continue;
            }
            for d in self.facade_graph.get(&f).cloned().unwrap_or_default() {
                if !d.contains('/') && !d.starts_with("dep:") {
                    todo.push(d);
                }
            }
        }
        out
    }
    fn enabled_derive_features(&self, set: &FeatSet) -> BTreeSet<String> {
        let c = self.closure(set);
        self.derive_features.iter().filter(|f| c.contains(*f)).cloned().collect()
    }
    /// The repository's test programs cargo would select for `--tests` under this set, minus the excluded ones.
    fn eligible_tests(&self, set: &FeatSet) -> Vec<String> {
        let c = self.closure(set);
        self.tests
            .iter()
            .filter(|(n, req)| !EXCLUDED_TESTS.contains(&n.as_str()) && req.iter().all(|r| c.contains(r)))
            .map(|(n, _)| n.clone())
            .collect()
    }
}

fn base_cargo(ctx: &Ctx) -> Command {
    let mut c = Command::new("cargo");
    c.env("CARGO_NET_OFFLINE", "true");
    c.env("CARGO_TERM_COLOR", "never");
    c.env("CARGO_INCREMENTAL", "0");
    // debuginfo changes neither verdicts nor behaviour, only disk usage and link time
    c.env("CARGO_PROFILE_DEV_DEBUG", "0");
    c.env("CARGO_PROFILE_TEST_DEBUG", "0");
    for k in ["RUSTFLAGS", "CARGO_ENCODED_RUSTFLAGS", "CARGO_BUILD_RUSTFLAGS", "RUSTDOCFLAGS", "RUSTC_WRAPPER", "CARGO_BUILD_TARGET"] {
        c.env_remove(k);
    }
    let _ = ctx;
    c
}

fn load_tree(ctx: &Ctx) -> Result<Tree, String> {
    let mut c = base_cargo(ctx);
    c.current_dir(&ctx.mirror).args(["metadata", "--format-version", "1", "--no-deps", "--offline"]);
    let out = c.output().map_err(|e| format!("cargo metadata: {e}"))?;
    if !out.status.success() {
        return Err(format!("cargo metadata failed on the mirror: {}", tail(&String::from_utf8_lossy(&out.stderr), 1500)));
    }
    let v: Value = serde_json::from_slice(&out.stdout).map_err(|e| format!("cargo metadata output: {e}"))?;
    let pkgs = v["packages"].as_array().cloned().unwrap_or_default();
    let facade = pkgs.iter().find(|p| p["name"] == "derive_more").ok_or("package derive_more not found in the mirror")?;
    let imp = pkgs.iter().find(|p| p["name"] == "derive_more-impl").ok_or("package derive_more-impl not found in the mirror")?;
    let mut facade_graph = BTreeMap::new();
    for (k, l) in facade["features"].as_object().cloned().unwrap_or_default() {
        let l: Vec<String> = l.as_array().cloned().unwrap_or_default().iter().filter_map(|x| x.as_str().map(|s| s.to_string())).collect();
        facade_graph.insert(k, l);
    }
    let impl_features: BTreeSet<String> = imp["features"].as_object().map(|m| m.keys().cloned().collect()).unwrap_or_default();
    let mut derive_features: Vec<String> = facade_graph
        .iter()
        .filter(|(k, l)| l.iter().any(|d| d == &format!("derive_more-impl/{k}")) && k.as_str() != "testing-helpers")
        .map(|(k, _)| k.clone())
        .collect();
    derive_features.sort();
    for f in &derive_features {
        if !impl_features.contains(f) {
            return Err(format!("facade feature `{f}` forwards to a feature derive_more-impl does not declare"));
        }
    }
    // The export table below is static (it is the documented contract, not something to be read off the tree under
    // test); if the tree grows or loses a derive feature the table has to be revisited by a human.
    let mine: BTreeSet<&str> = DERIVES.iter().map(|d| d.feature).collect();
    let theirs: BTreeSet<&str> = derive_features.iter().map(|s| s.as_str()).collect();
    if mine != theirs {
        return Err(format!(
            "the derive features of the tree ({:?}) differ from the export table of the check ({:?}); update harness/src/v/p20.rs",
            theirs.symmetric_difference(&mine).collect::<Vec<_>>(),
            mine.len()
        ));
    }
    if !facade_graph.contains_key("std") || !facade_graph.contains_key("full") {
        return Err("the facade crate no longer declares the `std` / `full` features".into());
    }
    let mut tests = vec![];
    for t in facade["targets"].as_array().cloned().unwrap_or_default() {
        if t["kind"].as_array().is_some_and(|k| k.iter().any(|x| *x == "test")) {
            let req: Vec<String> = t["required-features"].as_array().cloned().unwrap_or_default().iter().filter_map(|x| x.as_str().map(|s| s.to_string())).collect();
            tests.push((t["name"].as_str().unwrap_or("").to_string(), req));
        }
    }
    tests.sort();
    Ok(Tree { derive_features, facade_graph, tests })
}

// ------------------------------------------------------------------------------------------------------------
// the export table (oracle 2)
// ------------------------------------------------------------------------------------------------------------

#[derive(Clone, Copy, PartialEq, Eq, Debug)]
enum Expect {
    /// resolves iff one of the owning features is enabled
    Exact,
    /// must resolve when an owning feature is enabled; nothing is asserted otherwise (the docs are silent)
    PresentOnly,
    /// must never resolve
    Never,
    /// must always resolve
    Always,
    /// resolves iff one of the owning features is enabled *and* the facade's `std` feature is on
    ExactStd,
}

struct Probe {
    /// human-readable item name, e.g. `with_trait::Display (trait)`
    what: String,
    /// one line of Rust
    src: String,
    owners: Vec<&'static str>,
    expect: Expect,
}

/// Generic arguments needed to name the std trait a derive stands for; `None` = the derive has no std trait.
fn std_trait_args(derive: &str) -> Option<&'static str> {
    Some(match derive {
        "Constructor" | "IsVariant" | "Unwrap" | "TryUnwrap" => return None,
        "AsRef" | "AsMut" | "From" | "Into" | "TryFrom" | "TryInto" => "<u8>",
        "Index" | "IndexMut" => "<usize>",
        _ => "",
    })
}

/// The table feature -> exported items.
///
/// Grounding: README "Re-exports" (macros only at the crate root and in `derive`; macro *and* std trait in
/// `with_trait`), README "Installation" (each derive has to be enabled by its feature), impl/src/lib.rs
/// (`create_derive!` feature per macro — cross-checked against the tree by `dm::crosscheck_table`), the helper error
/// types named in impl/doc/{add,not,from_str,try_into,try_unwrap}.md and the `cfg`s of the pinned src/lib.rs
/// (`UnitError` belongs to `add`, `mul` *or* `not` — `#[mul(forward)]` on enums expands like the Add-like derives —, `TryFromReprError` to `try_from`, ...). `__private` is "not public,
/// but exported API for macro expansions": only its presence under the owning feature is asserted.
fn probes() -> Vec<Probe> {
    let mut v = vec![];
    let mut n = 0usize;
    let mut fresh = || {
        n += 1;
        n
    };
    v.push(Probe { what: "core (re-export used by the expansions)".into(), src: "use derive_more::core as _;".into(), owners: vec![], expect: Expect::Always });
    for d in DERIVES {
        for prefix in ["", "derive::", "with_trait::"] {
            v.push(Probe {
                what: format!("{prefix}{} (derive macro)", d.name),
                src: format!("use derive_more::{prefix}{} as _;", d.name),
                owners: vec![d.feature],
                expect: Expect::Exact,
            });
        }
        if let Some(args) = std_trait_args(d.name) {
            v.push(Probe {
                what: format!("with_trait::{} (std trait)", d.name),
                src: format!("fn _p{}<T: derive_more::with_trait::{}{args}>() {{}}", fresh(), d.name),
                owners: vec![d.feature],
                expect: Expect::Exact,
            });
            // README: "derive macros only, without the corresponding traits, are imported from the crate's root
            // (or from the `derive` module)"
            for prefix in ["", "derive::"] {
                v.push(Probe {
                    what: format!("{prefix}{} used as a trait (the root and `derive` export macros only)", d.name),
                    src: format!("fn _p{}<T: derive_more::{prefix}{}{args}>() {{}}", fresh(), d.name),
                    owners: vec![d.feature],
                    expect: Expect::Never,
                });
            }
        }
    }
    let helpers: &[(&str, &[&'static str])] = &[
        ("BinaryError", &["add", "mul"]),
        ("WrongVariantError", &["add", "mul"]),
        ("UnitError", &["add", "mul", "not"]),
        ("FromStrError", &["from_str"]),
        ("TryFromReprError", &["try_from"]),
        ("TryIntoError", &["try_into"]),
        ("TryUnwrapError", &["try_unwrap"]),
    ];
    for (name, owners) in helpers {
        v.push(Probe { what: format!("{name} (helper type)"), src: format!("use derive_more::{name} as _;"), owners: owners.to_vec(), expect: Expect::Exact });
    }
    // The helper types are error values: under every configuration that has them they print (`Display`, `Debug`), and with
    // `std` they are `std::error::Error`s (the `#[cfg(feature = "std")] impl std::error::Error for ..` of the pinned
    // src/{add,ops,str,convert,try_unwrap}.rs) — "each derive then behaves as it does under `full`" includes that the
    // error of a derived `from_str` / `try_from` / `try_into` / `try_unwrap_*` / checked operator converts into a
    // `Box<dyn Error>` with `?` when std is on, whatever other features are enabled.
    let helper_tys: &[(&str, &str, &[&'static str])] = &[
        ("BinaryError", "derive_more::BinaryError", &["add", "mul"]),
        ("WrongVariantError", "derive_more::WrongVariantError", &["add", "mul"]),
        ("UnitError", "derive_more::UnitError", &["add", "mul", "not"]),
        ("FromStrError", "derive_more::FromStrError", &["from_str"]),
        ("TryFromReprError", "derive_more::TryFromReprError<u8>", &["try_from"]),
        ("TryIntoError", "derive_more::TryIntoError<u8>", &["try_into"]),
        ("TryUnwrapError", "derive_more::TryUnwrapError<u8>", &["try_unwrap"]),
    ];
    for (name, ty, owners) in helper_tys {
        let k = fresh();
        v.push(Probe {
            what: format!("{name}: Display + Debug (helper type prints)"),
            src: format!("fn _h{k}() {{ fn p<T: core::fmt::Display + core::fmt::Debug>() {{}} p::<{ty}>(); }}"),
            owners: owners.to_vec(),
            expect: Expect::Exact,
        });
        let k = fresh();
        v.push(Probe {
            what: format!("{name}: std::error::Error (with the `std` feature)"),
            src: format!("fn _h{k}() {{ fn e<T: std::error::Error>() {{}} e::<{ty}>(); }}"),
            owners: owners.to_vec(),
            expect: Expect::ExactStd,
        });
    }
    // The *macro* namespace of `with_trait::X`: `use .. as _` above resolves as soon as the std trait is there, so a lost or
    // mis-gated `pub use derive_more_impl::X` in `with_trait` (the std glob imports also bring std's own `Debug` derive)
    // would go unnoticed. Each line derives through the `with_trait` path on an item only derive_more's macro accepts
    // (helper attribute) or whose expansion is checked by the trait bound that follows.
    for d in DERIVES {
        let k = fresh();
        let path = format!("derive_more::with_trait::{}", d.name);
        let line = with_trait_derive_line(d.name, &path, k);
        v.push(Probe { what: format!("with_trait::{} used in #[derive(..)]", d.name), src: line, owners: vec![d.feature], expect: Expect::Exact });
    }
    let private: &[(&str, &'static str)] =
        &[("Conv", "as_ref"), ("ExtractRef", "as_ref"), ("debug_tuple", "debug"), ("DebugTuple", "debug"), ("AsDynError", "error")];
    for (name, owner) in private {
        v.push(Probe {
            what: format!("__private::{name} (expansion helper)"),
            src: format!("use derive_more::__private::{name} as _;"),
            owners: vec![*owner],
            expect: Expect::PresentOnly,
        });
    }
    v
}

/// One line deriving `path` (= `derive_more::with_trait::<name>`) on a minimal item of type `P<k>` the derive supports, plus
/// whatever hand-written impls the expansion needs and a use of the generated impl.
fn with_trait_derive_line(name: &str, path: &str, k: usize) -> String {
    let p = format!("P{k}");
    let fmt_attr = |a: &str, tr: &str| format!("#[derive({path})] #[{a}(\"x\")] struct {p}; fn _u{k}() {{ fn t<T: core::fmt::{tr}>() {{}} t::<{p}>(); }}");
    match name {
        "Add" | "Sub" | "BitAnd" | "BitOr" | "BitXor" | "Mul" | "Div" | "Rem" | "Shr" | "Shl" | "Not" | "Neg" => {
            let args = if matches!(name, "Not" | "Neg") { "" } else if matches!(name, "Mul" | "Div" | "Rem" | "Shr" | "Shl") { "<i32>" } else { "" };
            format!("#[derive({path})] struct {p}(i32); fn _u{k}() {{ fn t<T: core::ops::{name}{args}>() {{}} t::<{p}>(); }}")
        }
        "AddAssign" | "SubAssign" | "BitAndAssign" | "BitOrAssign" | "BitXorAssign" => format!("#[derive({path})] struct {p}(i32); fn _u{k}() {{ fn t<T: core::ops::{name}>() {{}} t::<{p}>(); }}"),
        "MulAssign" | "DivAssign" | "RemAssign" | "ShrAssign" | "ShlAssign" => format!("#[derive({path})] struct {p}(i32); fn _u{k}() {{ fn t<T: core::ops::{name}<i32>>() {{}} t::<{p}>(); }}"),
        "AsRef" | "AsMut" => format!("#[derive({path})] struct {p}(i32); fn _u{k}() {{ fn t<T: core::convert::{name}<i32>>() {{}} t::<{p}>(); }}"),
        "Constructor" => format!("#[derive({path})] struct {p}(i32); fn _u{k}() {{ let _ = {p}::new(1); }}"),
        "Debug" => fmt_attr("debug", "Debug"),
        "Display" => fmt_attr("display", "Display"),
        "Binary" => fmt_attr("binary", "Binary"),
        "Octal" => fmt_attr("octal", "Octal"),
        "LowerHex" => fmt_attr("lower_hex", "LowerHex"),
        "UpperHex" => fmt_attr("upper_hex", "UpperHex"),
        "LowerExp" => fmt_attr("lower_exp", "LowerExp"),
        "UpperExp" => fmt_attr("upper_exp", "UpperExp"),
        "Pointer" => fmt_attr("pointer", "Pointer"),
        "Deref" => format!("#[derive({path})] struct {p}(i32); fn _u{k}() {{ fn t<T: core::ops::Deref<Target = i32>>() {{}} t::<{p}>(); }}"),
        "DerefMut" => format!("#[derive({path})] struct {p}(i32); impl core::ops::Deref for {p} {{ type Target = i32; fn deref(&self) -> &i32 {{ &self.0 }} }} fn _u{k}() {{ fn t<T: core::ops::DerefMut>() {{}} t::<{p}>(); }}"),
        "Error" => format!("#[derive(Debug, {path})] struct {p}; impl core::fmt::Display for {p} {{ fn fmt(&self, f: &mut core::fmt::Formatter<'_>) -> core::fmt::Result {{ f.write_str(\"p\") }} }} fn _u{k}() {{ fn t<T: core::error::Error>() {{}} t::<{p}>(); }}"),
        "From" => format!("#[derive({path})] struct {p}(i32); fn _u{k}() {{ let _: {p} = 1i32.into(); }}"),
        "FromStr" => format!("#[derive({path})] struct {p}(i32); fn _u{k}() {{ fn t<T: core::str::FromStr>() {{}} t::<{p}>(); }}"),
        "Index" => format!("#[derive({path})] struct {p}([i32; 2]); fn _u{k}(x: &{p}) -> i32 {{ x[0] }}"),
        "IndexMut" => format!("#[derive({path})] struct {p}([i32; 2]); impl<I> core::ops::Index<I> for {p} where [i32; 2]: core::ops::Index<I> {{ type Output = <[i32; 2] as core::ops::Index<I>>::Output; fn index(&self, i: I) -> &Self::Output {{ &self.0[i] }} }} fn _u{k}(x: &mut {p}) {{ x[0usize] = 1; }}"),
        "Into" => format!("#[derive({path})] struct {p}(i32); fn _u{k}(x: {p}) -> i32 {{ x.into() }}"),
        "IntoIterator" => format!("#[derive({path})] struct {p}([i32; 2]); fn _u{k}(x: {p}) -> usize {{ x.into_iter().count() }}"),
        "IsVariant" => format!("#[derive({path})] enum {p} {{ A(i32), B }} fn _u{k}(x: &{p}) -> bool {{ x.is_a() }}"),
        "Unwrap" => format!("#[derive({path})] enum {p} {{ A(i32), B }} fn _u{k}(x: {p}) -> i32 {{ x.unwrap_a() }}"),
        "TryUnwrap" => format!("#[derive({path})] enum {p} {{ A(i32), B }} fn _u{k}(x: {p}) -> bool {{ x.try_unwrap_a().is_ok() }}"),
        "Sum" => format!("#[derive({path})] struct {p}(i32); impl core::ops::Add for {p} {{ type Output = {p}; fn add(self, o: {p}) -> {p} {{ {p}(self.0 + o.0) }} }} fn _u{k}() {{ fn t<T: core::iter::Sum>() {{}} t::<{p}>(); }}"),
        "Product" => format!("#[derive({path})] struct {p}(i32); impl core::ops::Mul for {p} {{ type Output = {p}; fn mul(self, o: {p}) -> {p} {{ {p}(self.0 * o.0) }} }} fn _u{k}() {{ fn t<T: core::iter::Product>() {{}} t::<{p}>(); }}"),
        "TryFrom" => format!("#[derive({path})] #[try_from(repr)] #[repr(u8)] enum {p} {{ A, B }} fn _u{k}() -> bool {{ {p}::try_from(1u8).is_ok() }}"),
        "TryInto" => format!("#[derive({path})] enum {p} {{ A(i32), B(u8) }} fn _u{k}(x: {p}) -> bool {{ i32::try_from(x).is_ok() }}"),
        other => format!("#[derive({path})] struct {p}(i32); // {other}"),
    }
}

/// `Some(true)` must resolve, `Some(false)` must not, `None` nothing asserted.
fn expected_resolves(p: &Probe, enabled: &BTreeSet<String>, std: bool) -> Option<bool> {
    let owned = p.owners.iter().any(|o| enabled.contains(*o));
    match p.expect {
        Expect::Exact => Some(owned),
        Expect::ExactStd => Some(owned && std),
        Expect::PresentOnly => owned.then_some(true),
        Expect::Never => Some(false),
        Expect::Always => Some(true),
    }
}

const PROBE_HEADER_LINES: usize = 2;

/// evidence counters of the probe classes added for the macro namespace of `with_trait` and the trait impls of the helper
/// types: (derive-through-with_trait lines that compiled, helper `Display + Debug` lines, helper `std::error::Error` lines)
static CLASS_WITH_TRAIT_DERIVE: AtomicUsize = AtomicUsize::new(0);
static CLASS_HELPER_PRINTS: AtomicUsize = AtomicUsize::new(0);
static CLASS_HELPER_STD_ERROR: AtomicUsize = AtomicUsize::new(0);

fn probe_source(probes: &[Probe], dropped: &BTreeSet<usize>) -> String {
    let mut s = String::from("// generated by the C20 check: one exported item per line\n#![allow(unused_imports, dead_code)]\n");
    for (i, p) in probes.iter().enumerate() {
        if !dropped.contains(&i) {
            s.push_str(&p.src);
        }
        s.push('\n');
    }
    s
}

// ------------------------------------------------------------------------------------------------------------
// running cargo
// ------------------------------------------------------------------------------------------------------------

#[derive(Clone, Copy, PartialEq, Eq, Debug)]
enum Origin {
    Tree,
    Probe,
    Foreign,
}

#[derive(Clone, Debug)]
struct Diag {
    origin: Origin,
    target: String,
    line: usize,
    code: String,
    message: String,
    rendered: String,
}

struct CargoOut {
    ok: bool,
    timed_out: bool,
    errors: Vec<Diag>,
    /// stdout lines that are not cargo JSON messages (libtest output)
    text: String,
    stderr: String,
}

fn tail(s: &str, n: usize) -> String {
    let c: Vec<char> = s.chars().collect();
    if c.len() <= n {
        s.to_string()
    } else {
        format!("…{}", c[c.len() - n..].iter().collect::<String>())
    }
}

fn head(s: &str, n: usize) -> String {
    if s.chars().count() <= n {
        s.to_string()
    } else {
        format!("{}…", s.chars().take(n).collect::<String>())
    }
}

fn run_cargo(ctx: &Ctx, cmd: &mut Command, timeout: Duration) -> Result<CargoOut, String> {
    cmd.stdin(Stdio::null()).stdout(Stdio::piped()).stderr(Stdio::piped());
    let mut child = cmd.spawn().map_err(|e| format!("cannot start cargo: {e}"))?;
    let mut so = child.stdout.take().unwrap();
    let mut se = child.stderr.take().unwrap();
    let h1 = std::thread::spawn(move || {
        let mut b = Vec::new();
        let _ = so.read_to_end(&mut b);
        String::from_utf8_lossy(&b).into_owned()
    });
    let h2 = std::thread::spawn(move || {
        let mut b = Vec::new();
        let _ = se.read_to_end(&mut b);
        String::from_utf8_lossy(&b).into_owned()
    });
    let start = Instant::now();
    let mut timed_out = false;
    let status = loop {
        match child.try_wait() {
            Ok(Some(s)) => break Some(s),
            Ok(None) => {
                if start.elapsed() > timeout {
                    let _ = child.kill();
                    let _ = child.wait();
                    timed_out = true;
                    break None;
                }
                std::thread::sleep(Duration::from_millis(25));
            }
            Err(e) => return Err(format!("waiting for cargo: {e}")),
        }
    };
    let stdout = h1.join().unwrap_or_default();
    let stderr = h2.join().unwrap_or_default();
    let mirror = ctx.mirror.display().to_string();
    let gen = ctx.work_dir.join("gen").display().to_string();
    let mut errors = vec![];
    let mut text = String::new();
    for line in stdout.lines() {
        let v: Value = match line.starts_with('{').then(|| serde_json::from_str::<Value>(line).ok()).flatten() {
            Some(v) if v["reason"].is_string() => v,
            _ => {
                text.push_str(line);
                text.push('\n');
                continue;
            }
        };
        if v["reason"] != "compiler-message" {
            continue;
        }
        let m = &v["message"];
        if m["level"] != "error" {
            continue;
        }
        let msg = m["message"].as_str().unwrap_or("").to_string();
        if msg.starts_with("aborting due to") {
            continue;
        }
        let manifest = v["manifest_path"].as_str().unwrap_or("");
        let origin = if manifest.starts_with(&mirror) {
            Origin::Tree
        } else if manifest.starts_with(&gen) {
            Origin::Probe
        } else {
            Origin::Foreign
        };
        let mut line_no = 0usize;
        if let Some(spans) = m["spans"].as_array() {
            let prim = spans.iter().find(|s| s["is_primary"] == true).or_else(|| spans.first());
            if let Some(mut s) = prim {
                // follow macro expansions back to the outermost call site
                loop {
                    let next = &s["expansion"]["span"];
                    if next.is_null() {
                        break;
                    }
                    s = next;
                }
                line_no = s["line_start"].as_u64().unwrap_or(0) as usize;
            }
        }
        errors.push(Diag {
            origin,
            target: v["target"]["name"].as_str().unwrap_or("").to_string(),
            line: line_no,
            code: m["code"]["code"].as_str().unwrap_or("").to_string(),
            message: msg,
            rendered: m["rendered"].as_str().unwrap_or("").to_string(),
        });
    }
    Ok(CargoOut { ok: status.is_some_and(|s| s.success()), timed_out, errors, text, stderr })
}

// ------------------------------------------------------------------------------------------------------------
// evaluating one configuration
// ------------------------------------------------------------------------------------------------------------

#[derive(Clone, Debug)]
struct StageFail {
    stage: &'static str,
    summary: String,
    expected: String,
    observed: String,
}

#[derive(Clone, Debug, Default)]
struct SetResult {
    fails: Vec<StageFail>,
    infra: Vec<String>,
    build_ok: bool,
    exports_ok: bool,
    tests_ok: bool,
    probes_asserted: usize,
    items_resolved: usize,
    tests_run: Vec<String>,
    test_fns_passed: u64,
    usage_programs: usize,
    secs: f64,
}

struct Slot {
    target: PathBuf,
    probe_dir: PathBuf,
    jobs: usize,
}

fn slot(ctx: &Ctx, k: usize, jobs: usize) -> Slot {
    Slot { target: ctx.work_dir.join(format!("tgt-c20-{k}")), probe_dir: ctx.work_dir.join("gen").join(format!("c20_probe_{k}")), jobs }
}

fn write_if_changed(p: &Path, s: &str) -> Result<(), String> {
    if std::fs::read_to_string(p).is_ok_and(|old| old == s) {
        return Ok(());
    }
    std::fs::write(p, s).map_err(|e| format!("{}: {e}", p.display()))
}

fn cargo_in(ctx: &Ctx, sl: &Slot, dir: &Path) -> Command {
    let mut c = base_cargo(ctx);
    c.current_dir(dir);
    c.env("CARGO_TARGET_DIR", &sl.target);
    c
}

fn render_errors(errs: &[&Diag], n: usize) -> String {
    let mut s = String::new();
    for d in errs.iter().take(n) {
        s.push_str(&head(d.rendered.trim_end(), 900));
        s.push('\n');
    }
    if errs.len() > n {
        s.push_str(&format!("(+ {} more errors)\n", errs.len() - n));
    }
    s
}

const CMD_TIMEOUT: Duration = Duration::from_secs(1500);

/// Judges a `cargo check`/`cargo test --no-run`-like result: `Ok(None)` fine, `Ok(Some(errors))` the tree does not
/// build, `Err` infrastructure.
fn judge_build<'a>(what: &str, out: &'a CargoOut) -> Result<Option<Vec<&'a Diag>>, String> {
    if out.timed_out {
        return Err(format!("{what}: cargo did not finish within {} s", CMD_TIMEOUT.as_secs()));
    }
    let tree: Vec<&Diag> = out.errors.iter().filter(|d| d.origin == Origin::Tree).collect();
    if !tree.is_empty() {
        return Ok(Some(tree));
    }
    if !out.ok {
        let foreign: Vec<&Diag> = out.errors.iter().filter(|d| d.origin == Origin::Foreign).collect();
        if !foreign.is_empty() {
            return Err(format!("{what}: a dependency outside the tree does not build: {}", head(&foreign[0].rendered, 600)));
        }
        return Err(format!("{what}: cargo failed without compiler diagnostics: {}", tail(&out.stderr, 1200)));
    }
    Ok(None)
}

fn eval_set(ctx: &Ctx, tree: &Tree, set: &FeatSet, sl: &Slot) -> SetResult {
    let t0 = Instant::now();
    let mut r = SetResult::default();
    let jobs = sl.jobs.to_string();
    for f in &set.feats {
        if !tree.facade_graph.contains_key(f) || f == "std" || f == "default" || f == "testing-helpers" {
            r.infra.push(format!("`{f}` is not a derive feature (or `full`) of the tree under test"));
            return r;
        }
    }
    let enabled = tree.enabled_derive_features(set);

    // ---- (1) both crates build -------------------------------------------------------------------------------
    let stages: [(&'static str, &str, String); 2] =
        [("build-impl", "derive_more-impl", set.impl_arg()), ("build-facade", "derive_more", set.facade_arg())];
    for (stage, pkg, feats) in stages {
        let mut c = cargo_in(ctx, sl, &ctx.mirror);
        c.args(["check", "--offline", "-q", "--message-format=json", "-j", &jobs, "-p", pkg, "--no-default-features", "--features", &feats]);
        let cmdline = format!("cargo check -p {pkg} --no-default-features --features {feats}");
        match run_cargo(ctx, &mut c, CMD_TIMEOUT).and_then(|o| judge_build(&cmdline, &o).map(|j| j.map(|e| (e.len(), e[0].code.clone(), head(&e[0].message, 160), render_errors(&e, 3))))) {
            Err(e) => {
                r.infra.push(e);
                r.secs = t0.elapsed().as_secs_f64();
                return r;
            }
            Ok(Some((n, code, first, rendered))) => {
                r.fails.push(StageFail {
                    stage,
                    summary: format!("`{pkg}` does not build: {n} error(s), first: {}{first}", if code.is_empty() { String::new() } else { format!("[{code}] ") }),
                    expected: format!("`{cmdline}` finishes without errors"),
                    observed: rendered,
                });
                // nothing else can be observed for a configuration that does not build
                r.secs = t0.elapsed().as_secs_f64();
                return r;
            }
            Ok(None) => {}
        }
    }
    r.build_ok = true;

    // ---- (2) exactly the items of the enabled features are exposed ---------------------------------------------
    match probe_exports(ctx, sl, set, &enabled) {
        Err(e) => r.infra.push(e),
        Ok((asserted, resolved, missing, leaked)) => {
            r.probes_asserted = asserted;
            r.items_resolved = resolved;
            if missing.is_empty() && leaked.is_empty() {
                r.exports_ok = true;
            } else {
                let mut obs = String::new();
                if !missing.is_empty() {
                    obs.push_str(&format!("not exposed although the feature is enabled: {}\n", missing.iter().map(|(w, m)| format!("{w} [{m}]")).collect::<Vec<_>>().join("; ")));
                }
                if !leaked.is_empty() {
                    obs.push_str(&format!("exposed although no owning feature is enabled: {}\n", leaked.join("; ")));
                }
                let first = missing.first().map(|(w, _)| format!("missing {w}")).or_else(|| leaked.first().map(|w| format!("unexpected {w}"))).unwrap_or_default();
                r.fails.push(StageFail {
                    stage: "exports",
                    summary: format!("exported items differ from the enabled features ({} missing, {} unexpected), first: {first}", missing.len(), leaked.len()),
                    expected: format!("exactly the derives and helper items of {{{}}} resolve in a crate depending on derive_more with these features", enabled.iter().cloned().collect::<Vec<_>>().join(", ")),
                    observed: obs,
                });
            }
        }
    }

    // ---- (3) the repository's own test programs for the enabled derives pass ------------------------------------
    let tests = tree.eligible_tests(set);
    let mut c = cargo_in(ctx, sl, &ctx.mirror);
    c.args(["test", "--offline", "--no-fail-fast", "--message-format=json", "-j", &jobs, "-p", "derive_more", "--no-default-features", "--features", &set.facade_arg(), "--lib"]);
    for t in &tests {
        c.arg("--test").arg(t);
    }
    let cmdline = format!(
        "cargo test -p derive_more --no-default-features --features {} --lib {}",
        set.facade_arg(),
        tests.iter().map(|t| format!("--test {t}")).collect::<Vec<_>>().join(" ")
    );
    match run_cargo(ctx, &mut c, CMD_TIMEOUT) {
        Err(e) => r.infra.push(e),
        Ok(out) => {
            let compile_errs: Vec<&Diag> = out.errors.iter().filter(|d| d.origin == Origin::Tree).collect();
            if out.timed_out {
                r.infra.push(format!("{cmdline}: did not finish within {} s", CMD_TIMEOUT.as_secs()));
            } else if !compile_errs.is_empty() {
                let mut targets: Vec<String> = compile_errs.iter().map(|d| d.target.clone()).collect();
                targets.sort();
                targets.dedup();
                r.fails.push(StageFail {
                    stage: "tests-compile",
                    summary: format!(
                        "test program(s) {} do not compile: {} error(s), first: {}{}",
                        targets.join(", "),
                        compile_errs.len(),
                        if compile_errs[0].code.is_empty() { String::new() } else { format!("[{}] ", compile_errs[0].code) },
                        head(&compile_errs[0].message, 160)
                    ),
                    expected: format!("`{cmdline}` builds and passes"),
                    observed: render_errors(&compile_errs, 3),
                });
            } else if !out.ok {
                let mut failed_targets: Vec<String> = out
                    .stderr
                    .lines()
                    .filter_map(|l| l.split("to rerun pass `").nth(1).and_then(|r| r.split('`').next()).map(|s| s.to_string()))
                    .collect();
                failed_targets.sort();
                failed_targets.dedup();
                let failed_fns: Vec<String> = out
                    .text
                    .lines()
                    .filter(|l| l.starts_with("test ") && l.trim_end().ends_with("FAILED"))
                    .map(|l| l.trim_start_matches("test ").split(" ...").next().unwrap_or("").to_string())
                    .collect();
                if failed_targets.is_empty() && failed_fns.is_empty() {
                    let foreign: Vec<&Diag> = out.errors.iter().filter(|d| d.origin == Origin::Foreign).collect();
                    r.infra.push(format!(
                        "{cmdline}: cargo failed but no test failure could be identified: {}",
                        foreign.first().map(|d| head(&d.rendered, 600)).unwrap_or_else(|| tail(&out.stderr, 1200))
                    ));
                } else {
                    r.fails.push(StageFail {
                        stage: "tests-run",
                        summary: format!("test program(s) fail: {}; failing tests: {}", failed_targets.join(", "), head(&failed_fns.join(", "), 300)),
                        expected: format!("`{cmdline}` passes"),
                        observed: tail(&out.text, 2500),
                    });
                }
            } else {
                r.tests_ok = true;
            }
            for l in out.text.lines() {
                if let Some(rest) = l.strip_prefix("test result: ok. ") {
                    r.test_fns_passed += rest.split(' ').next().and_then(|n| n.parse::<u64>().ok()).unwrap_or(0);
                }
            }
            r.tests_run = tests;
        }
    }

    // ---- (4) each derive of the enabled features behaves as it does under `full` --------------------------------
    // usage programs (the behaviour templates of check C15: documented forms of every derive family, incl. forms the
    // repository's own test programs do not contain) are compiled against exactly this configuration and must print
    // what they print under `full`
    match usage_programs(ctx, sl, set, &enabled) {
        Err(e) => r.infra.push(e),
        Ok(results) => {
            r.usage_programs = results.len();
            let reference = usage_reference();
            for (name, res) in results {
                match (res, reference.get(&name)) {
                    (Ok(out), Some(want)) if &out == want => {}
                    (Ok(out), Some(want)) => r.fails.push(StageFail {
                        stage: "usage-run",
                        summary: format!("usage program `{name}` behaves differently from `full`"),
                        expected: want.clone(),
                        observed: out,
                    }),
                    (Ok(_), None) => {}
                    (Err(e), _) => r.fails.push(StageFail {
                        stage: "usage-compile",
                        summary: format!("usage program `{name}` (derives of the enabled features only) does not compile: {}", head(&e, 160)),
                        expected: "compiles as it does under `full`".into(),
                        observed: e,
                    }),
                }
            }
        }
    }
    r.secs = t0.elapsed().as_secs_f64();
    r
}

fn init_usage_reference(ctx: &Ctx, tree: &Tree, jobs: usize, rep: &mut Report) {
    if USAGE_REF.get().is_some() {
        return;
    }
    // reference outputs of the usage programs: `full` with std (what the pinned suite's configuration does)
    {
        let full = FeatSet::new(vec!["full".to_string()], true);
        let enabled = tree.enabled_derive_features(&full);
        match usage_programs(ctx, &slot(ctx, 0, jobs), &full, &enabled) {
            Ok(res) => {
                let mut m = BTreeMap::new();
                for (name, r) in res {
                    match r {
                        Ok(out) => {
                            m.insert(name, out);
                        }
                        Err(e) => rep.infra_errors.push(format!("usage program `{name}` does not compile under `full`: {}", head(&e, 400))),
                    }
                }
                rep.evidence.set("usage_programs_reference", json!(m.len()));
                let _ = USAGE_REF.set(m);
            }
            Err(e) => {
                rep.infra_errors.push(format!("usage reference: {e}"));
                let _ = USAGE_REF.set(BTreeMap::new());
            }
        }
    }
}

static USAGE_REF: std::sync::OnceLock<BTreeMap<String, String>> = std::sync::OnceLock::new();

fn usage_reference() -> &'static BTreeMap<String, String> {
    USAGE_REF.get().expect("usage reference is computed before the matrix runs")
}

/// features a behaviour template needs (features of the derive_more derives it mentions)
fn template_features(items: &str) -> BTreeSet<String> {
    let mut out = BTreeSet::new();
    let mut rest = items;
    while let Some(i) = rest.find("derive_more::") {
        let tail = &rest[i + "derive_more::".len()..];
        let name: String = tail.chars().take_while(|c| c.is_alphanumeric()).collect();
        if let Some(d) = super::dm::Derive::by_name(&name) {
            out.insert(d.info().feature.to_string());
        }
        rest = tail;
    }
    out
}

/// Builds and runs the applicable usage programs against derive_more with exactly the features of `set`.
/// Returns per program Ok(output) or Err(compile diagnostics).
fn usage_programs(ctx: &Ctx, sl: &Slot, set: &FeatSet, enabled: &BTreeSet<String>) -> Result<Vec<(String, Result<String, String>)>, String> {
    let dir = sl.probe_dir.with_file_name(format!("{}_usage", sl.probe_dir.file_name().unwrap().to_string_lossy()));
    std::fs::create_dir_all(dir.join("src")).map_err(|e| e.to_string())?;
    let mut feats: Vec<String> = set.feats.iter().map(|f| format!("\"{f}\"")).collect();
    if set.std {
        feats.push("\"std\"".into());
    }
    let toml = format!(
        "[package]\nname = \"c20_usage\"\nversion = \"0.0.0\"\nedition = \"2021\"\n\n[workspace]\n\n[dependencies]\nderive_more = {{ path = \"{}\", default-features = false, features = [{}] }}\n\n[profile.dev]\ndebug = 0\nincremental = false\n",
        ctx.mirror.display(),
        feats.join(", ")
    );
    write_if_changed(&dir.join("Cargo.toml"), &toml)?;
    if !dir.join("Cargo.lock").exists() {
        let _ = std::fs::copy(ctx.mirror.join("Cargo.lock"), dir.join("Cargo.lock"));
    }
    let applicable: Vec<(usize, &str, &str, &str)> = super::p15::TEMPLATES
        .iter()
        .enumerate()
        .filter(|(_, t)| {
            let need = template_features(t.1);
            !need.is_empty() && need.iter().all(|f| enabled.contains(f))
        })
        .map(|(i, t)| (i, t.0, t.1, t.2))
        .collect();
    if applicable.is_empty() {
        return Ok(vec![]);
    }
    let mut dropped: BTreeMap<usize, String> = BTreeMap::new();
    for _round in 0..6 {
        let mut src = String::from("#![allow(dead_code, unused_imports, unused_variables, unused_mut, non_camel_case_types, deprecated)]\n");
        src.push_str(super::proggen::RUNTIME);
        src.push_str(super::p01::PRELUDE);
        src.push('\n');
        let mut ranges: Vec<(usize, usize, usize)> = vec![];
        let mut line = src.matches('\n').count() + 1;
        for (i, _name, items, driver) in &applicable {
            if dropped.contains_key(i) {
                continue;
            }
            let m = format!(
                "pub mod t{i} {{\n    use crate::*;\n    pub mod friendly {{\n        #[allow(unused_imports)] use crate::*;\n        {items}\n    }}\n    macro_rules! drive {{ ($m:ident) => {{ {driver} }} }}\n    pub fn run() -> String {{ drive!(friendly) }}\n}}\n"
            );
            let n = m.matches('\n').count();
            ranges.push((*i, line, line + n - 1));
            line += n;
            src.push_str(&m);
        }
        src.push_str("fn main() {\n    std::panic::set_hook(Box::new(|_| {}));\n");
        for (i, name, _, _) in &applicable {
            if !dropped.contains_key(i) {
                src.push_str(&format!("    println!(\"@@{name}\\t{{}}\", match __catch(t{i}::run) {{ Ok(s) => s.replace('\\n', \"\\\\n\"), Err(p) => format!(\"<panic: {{p}}>\") }});\n"));
            }
        }
        src.push_str("}\n");
        std::fs::write(dir.join("src/main.rs"), &src).map_err(|e| e.to_string())?;
        let mut c = cargo_in(ctx, sl, &dir);
        c.args(["build", "--offline", "-q", "--message-format=json", "-j", &sl.jobs.to_string()]);
        let out = run_cargo(ctx, &mut c, CMD_TIMEOUT)?;
        if out.timed_out {
            return Err("usage crate: cargo did not finish".into());
        }
        if let Some(d) = out.errors.iter().find(|d| d.origin == Origin::Tree || d.origin == Origin::Foreign) {
            return Err(format!("usage crate: derive_more or a dependency failed to build although `cargo check` succeeded before: {}", head(&d.rendered, 600)));
        }
        if out.ok && out.errors.is_empty() {
            break;
        }
        let mut new = 0;
        for d in &out.errors {
            match ranges.iter().find(|(_, a, b)| d.line >= *a && d.line <= *b) {
                Some((i, _, _)) => {
                    if !dropped.contains_key(i) {
                        new += 1;
                    }
                    dropped.entry(*i).or_default().push_str(&format!("{}\n", head(&d.rendered, 700)));
                }
                None => return Err(format!("usage crate: diagnostic outside the usage programs: {}", head(&d.rendered, 600))),
            }
        }
        if new == 0 {
            return Err(format!("usage crate: cargo failed without new diagnostics: {}", tail(&out.stderr, 800)));
        }
    }
    // run
    let bin = sl.target.join("debug").join("c20_usage");
    let outp = Command::new(&bin).output().map_err(|e| format!("usage crate: cannot run {}: {e}", bin.display()))?;
    let text = String::from_utf8_lossy(&outp.stdout);
    let mut results = vec![];
    for (i, name, _, _) in &applicable {
        if let Some(e) = dropped.get(i) {
            results.push((name.to_string(), Err(e.clone())));
        } else {
            let line = text.lines().find_map(|l| l.strip_prefix(&format!("@@{name}\t")));
            match line {
                Some(l) => results.push((name.to_string(), Ok(l.to_string()))),
                None => return Err(format!("usage crate: no output line for `{name}` (exit {:?})", outp.status)),
            }
        }
    }
    Ok(results)
}

/// Oracle 2. Returns (asserted probes, items that resolve, missing [(item, rustc message)], leaked [item]).
#[allow(clippy::type_complexity)]
fn probe_exports(ctx: &Ctx, sl: &Slot, set: &FeatSet, enabled: &BTreeSet<String>) -> Result<(usize, usize, Vec<(String, String)>, Vec<String>), String> {
    let probes = probes();
    let dir = &sl.probe_dir;
    std::fs::create_dir_all(dir.join("src")).map_err(|e| e.to_string())?;
    let mut feats: Vec<String> = set.feats.iter().map(|f| format!("\"{f}\"")).collect();
    if set.std {
        feats.push("\"std\"".into());
    }
    let toml = format!(
        "[package]\nname = \"c20_probe\"\nversion = \"0.0.0\"\nedition = \"2021\"\n\n[workspace]\n\n[dependencies]\nderive_more = {{ path = \"{}\", default-features = false, features = [{}] }}\n",
        ctx.mirror.display(),
        feats.join(", ")
    );
    write_if_changed(&dir.join("Cargo.toml"), &toml)?;
    if !dir.join("Cargo.lock").exists() {
        let _ = std::fs::copy(ctx.mirror.join("Cargo.lock"), dir.join("Cargo.lock"));
    }
    let mut unresolved: BTreeMap<usize, String> = BTreeMap::new();
    let mut rounds = 0;
    loop {
        rounds += 1;
        let dropped: BTreeSet<usize> = unresolved.keys().copied().collect();
        // always rewritten: the file content is what cargo fingerprints by mtime
        std::fs::write(dir.join("src/lib.rs"), probe_source(&probes, &dropped)).map_err(|e| e.to_string())?;
        let mut c = cargo_in(ctx, sl, dir);
        c.args(["check", "--offline", "-q", "--message-format=json", "-j", &sl.jobs.to_string()]);
        let out = run_cargo(ctx, &mut c, CMD_TIMEOUT)?;
        if out.timed_out {
            return Err("probe crate: cargo did not finish".into());
        }
        if let Some(d) = out.errors.iter().find(|d| d.origin != Origin::Probe) {
            return Err(format!("probe crate: derive_more or a dependency failed to build although `cargo check` succeeded before: {}", head(&d.rendered, 600)));
        }
        let mut new = 0;
        for d in &out.errors {
            let idx = d.line.wrapping_sub(PROBE_HEADER_LINES + 1);
            if d.line == 0 || idx >= probes.len() {
                return Err(format!("probe crate: diagnostic that does not belong to a probe line: {}", head(&d.rendered, 600)));
            }
            if !unresolved.contains_key(&idx) {
                new += 1;
                unresolved.insert(idx, format!("{}{}", if d.code.is_empty() { String::new() } else { format!("{} ", d.code) }, head(&d.message, 120)));
            }
        }
        if out.ok && out.errors.is_empty() {
            break;
        }
        if new == 0 {
            return Err(format!("probe crate: cargo failed without new diagnostics: {}", tail(&out.stderr, 800)));
        }
        if rounds >= 5 {
            return Err("probe crate: no compiling fixpoint after 5 rounds".into());
        }
    }
    let mut asserted = 0;
    let mut missing = vec![];
    let mut leaked = vec![];
    for (i, p) in probes.iter().enumerate() {
        let resolves = !unresolved.contains_key(&i);
        match expected_resolves(p, enabled, set.std) {
            None => {}
            Some(e) => {
                asserted += 1;
                if e && resolves {
                    if p.what.ends_with("used in #[derive(..)]") {
                        CLASS_WITH_TRAIT_DERIVE.fetch_add(1, Ordering::Relaxed);
                    } else if p.what.ends_with("(helper type prints)") {
                        CLASS_HELPER_PRINTS.fetch_add(1, Ordering::Relaxed);
                    } else if p.expect == Expect::ExactStd {
                        CLASS_HELPER_STD_ERROR.fetch_add(1, Ordering::Relaxed);
                    }
                }
                if e && !resolves {
                    missing.push((p.what.clone(), unresolved[&i].clone()));
                } else if !e && resolves {
                    leaked.push(p.what.clone());
                }
            }
        }
    }
    Ok((asserted, probes.len() - unresolved.len(), missing, leaked))
}

// ------------------------------------------------------------------------------------------------------------
// the matrix driver
// ------------------------------------------------------------------------------------------------------------

fn env_usize(name: &str, default: usize) -> usize {
    std::env::var(name).ok().and_then(|s| s.trim().parse().ok()).unwrap_or(default)
}

fn dir_size(p: &Path) -> u64 {
    let mut total = 0;
    let Ok(rd) = std::fs::read_dir(p) else { return 0 };
    for e in rd.flatten() {
        let Ok(ft) = e.file_type() else { continue };
        if ft.is_dir() {
            total += dir_size(&e.path());
        } else if let Ok(m) = e.metadata() {
            total += m.len();
        }
    }
    total
}

/// Drops the artifacts of the two workspace crates (one set per feature combination) and keeps the dependencies.
fn trim_slot(ctx: &Ctx, sl: &Slot) {
    let mut c = cargo_in(ctx, sl, &ctx.mirror);
    c.args(["clean", "--offline", "-q", "-p", "derive_more", "-p", "derive_more-impl"]);
    let _ = c.output();
}

const SLOT_TRIM_BYTES: u64 = 500_000_000;
const TOTAL_KEEP_BYTES: u64 = 3_000_000_000;

/// Evaluates `sets` on `nslots` parallel slots. The first `mandatory` sets are always evaluated; later ones only
/// while the budget lasts (a `None` result = not run).
fn run_sets(ctx: &Ctx, tree: &Tree, sets: &[FeatSet], nslots: usize, jobs: usize, mandatory: usize, budget_s: f64) -> Vec<Option<SetResult>> {
    let next = AtomicUsize::new(0);
    let results: Mutex<Vec<Option<SetResult>>> = Mutex::new(vec![None; sets.len()]);
    std::thread::scope(|s| {
        for k in 0..nslots.min(sets.len()).max(1) {
            let next = &next;
            let results = &results;
            s.spawn(move || {
                let sl = slot(ctx, k, jobs);
                let mut done = 0usize;
                loop {
                    let i = next.fetch_add(1, Ordering::SeqCst);
                    if i >= sets.len() {
                        break;
                    }
                    if i >= mandatory && ctx.elapsed() > budget_s {
                        break;
                    }
                    let r = eval_set(ctx, tree, &sets[i], &sl);
                    results.lock().unwrap()[i] = Some(r);
                    done += 1;
                    if done % 4 == 0 && dir_size(&sl.target) > SLOT_TRIM_BYTES {
                        trim_slot(ctx, &sl);
                    }
                }
            });
        }
    });
    results.into_inner().unwrap()
}

fn shuffled<T: Clone + std::fmt::Debug>(runner: &mut TestRunner, v: Vec<T>) -> Vec<T> {
    if v.len() < 2 {
        return v;
    }
    let s = Just(v.clone()).prop_shuffle();
    draw(runner, &s, 1).pop().map(|t| t.current()).unwrap_or(v)
}

fn draw_u16s(runner: &mut TestRunner, n: usize) -> Vec<u16> {
    draw(runner, &any::<u16>(), n).iter().map(|t| t.current()).collect()
}

fn all_pairs(feats: &[String]) -> Vec<(String, String)> {
    let mut v = vec![];
    for i in 0..feats.len() {
        for j in i + 1..feats.len() {
            v.push((feats[i].clone(), feats[j].clone()));
        }
    }
    v
}

fn larger_subset(runner: &mut TestRunner, feats: &[String], max: usize) -> FeatSet {
    let d = draw_u16s(runner, 2);
    let size = 3 + pick_idx(d[0], max.saturating_sub(2).max(1));
    let perm = shuffled(runner, feats.to_vec());
    FeatSet::new(perm.into_iter().take(size).collect(), d[1] & 1 == 1)
}

const QUICK_PAIRS: usize = 10;

/// quick tier: the two corner sets, every derive feature on its own once (the `std` state of each is drawn per pair
/// of seeds and flipped on odd seeds, so seeds 2k and 2k+1 together cover all 48 single configurations), a rotating
/// window of 10 pairs (28 consecutive seeds cover all 276 pairs) and one random larger subset.
fn plan_quick(ctx: &Ctx, tree: &Tree) -> Vec<FeatSet> {
    let feats = &tree.derive_features;
    let mut sets = vec![FeatSet::new(vec!["full".into()], false), FeatSet::new(vec!["constructor".into()], true)];
    // singles
    let mut er = runner_for(ctx.seed / 2, &ctx.property, 100);
    let perm = shuffled(&mut er, feats.clone());
    let bits = draw_u16s(&mut er, perm.len());
    let flip = ctx.seed % 2 == 1;
    for i in 0..perm.len() {
        let std = (bits[i] & 1 == 1) ^ flip;
        sets.push(FeatSet::new(vec![perm[i].clone()], std));
    }
    // pairs
    let pairs = all_pairs(feats);
    let windows = pairs.len().div_ceil(QUICK_PAIRS) as u64;
    let mut pr = runner_for(ctx.seed / windows, &ctx.property, 101);
    let pperm = shuffled(&mut pr, pairs);
    let pw = (ctx.seed % windows) as usize;
    let mut sr = ctx.runner(2);
    let pbits = draw_u16s(&mut sr, QUICK_PAIRS);
    for k in 0..QUICK_PAIRS {
        let (a, b) = pperm[(pw * QUICK_PAIRS + k) % pperm.len()].clone();
        sets.push(FeatSet::new(vec![a, b], pbits[k] & 1 == 1));
    }
    // one larger subset
    let mut lr = ctx.runner(3);
    sets.push(larger_subset(&mut lr, feats, 6));
    dedup_keep_order(sets)
}

const THOROUGH_EXTRA_LARGER: usize = 54;

/// thorough tier: (mandatory) `full` with and without std and all 48 single configurations; then all 552 pair
/// configurations in seeded order with a random larger subset (3..=12 features) after every 12th and 54 more at the
/// end, as far as the budget allows.
fn plan_thorough(ctx: &Ctx, tree: &Tree) -> (Vec<FeatSet>, usize) {
    let feats = &tree.derive_features;
    let mut sets = vec![FeatSet::new(vec!["full".into()], false), FeatSet::new(vec!["full".into()], true)];
    for f in feats {
        sets.push(FeatSet::new(vec![f.clone()], false));
        sets.push(FeatSet::new(vec![f.clone()], true));
    }
    // the one conjunction gate of the facade (`cfg_attr(all(add, display, from, into), doc = include_str!(README))`)
    for std in [false, true] {
        sets.push(FeatSet::new(["add", "display", "from", "into"].iter().map(|s| s.to_string()).collect(), std));
    }
    let mandatory = sets.len();
    let mut cfgs = vec![];
    for (a, b) in all_pairs(feats) {
        cfgs.push(FeatSet::new(vec![a.clone(), b.clone()], false));
        cfgs.push(FeatSet::new(vec![a, b], true));
    }
    let mut r1 = ctx.runner(1);
    let cfgs = shuffled(&mut r1, cfgs);
    let mut lr = ctx.runner(3);
    for (i, c) in cfgs.into_iter().enumerate() {
        sets.push(c);
        if i % 12 == 11 {
            sets.push(larger_subset(&mut lr, feats, 12));
        }
    }
    // once the pair space is complete the rest of the fixed plan is more random larger subsets
    for _ in 0..THOROUGH_EXTRA_LARGER {
        sets.push(larger_subset(&mut lr, feats, 12));
    }
    (dedup_keep_order(sets), mandatory)
}

fn dedup_keep_order(sets: Vec<FeatSet>) -> Vec<FeatSet> {
    let mut seen = BTreeSet::new();
    sets.into_iter().filter(|s| seen.insert(s.clone())).collect()
}

fn violations_of(set: &FeatSet, r: &SetResult, minimised_from: Option<&FeatSet>) -> Vec<Violation> {
    r.fails
        .iter()
        .map(|f| {
            let mut case = set.to_json();
            case["stage"] = json!(f.stage);
            if let Some(m) = minimised_from {
                case["minimised_from"] = m.to_json();
            }
            Violation { sig: None, summary: format!("features {}: {}", set.key(), f.summary), case, expected: f.expected.clone(), observed: f.observed.clone() }
        })
        .collect()
}

/// Greedy minimisation of a failing larger subset: drop one feature at a time while the same stage keeps failing.
fn minimise(ctx: &Ctx, tree: &Tree, set: &FeatSet, res: &SetResult, sl: &Slot) -> (FeatSet, SetResult) {
    let stage = res.fails[0].stage;
    let mut cur = set.clone();
    let mut cur_res = res.clone();
    let mut steps = 0;
    let mut progress = true;
    while progress && cur.feats.len() > 1 && steps < 16 {
        progress = false;
        for i in 0..cur.feats.len() {
            let mut f = cur.feats.clone();
            f.remove(i);
            let cand = FeatSet::new(f, cur.std);
            steps += 1;
            let r = eval_set(ctx, tree, &cand, sl);
            if r.infra.is_empty() && r.fails.iter().any(|x| x.stage == stage) {
                cur = cand;
                cur_res = r;
                progress = true;
                break;
            }
            if steps >= 16 {
                break;
            }
        }
    }
    (cur, cur_res)
}

fn assumptions() -> Vec<String> {
    vec![
        "cargo/rustc of the installed stable toolchain, offline, the repository's own Cargo.lock; debuginfo and incremental compilation are switched off (no influence on verdicts)".into(),
        "only error-level diagnostics count as 'does not build' (no -D warnings: the installed rustc is newer than the pinned toolchain and emits lints the upstream CI did not see)".into(),
        "the test programs run are those cargo selects for `--tests` under the feature set (required-features satisfied) plus the lib unit tests; `compile_fail` (trybuild, needs the network and fails in the baseline) is excluded".into(),
        "the export table is static and grounded in README (Re-exports, Installation), impl/doc/*.md (helper error types) and the cfg gates of the pinned src/lib.rs; for `__private::*` only presence under the owning feature is asserted".into(),
        "the facade's `std` feature has no counterpart in derive_more-impl, so F' = F without `std`".into(),
    ]
}

pub fn run(ctx: &Ctx) -> Report {
    let mut rep = Report::new(RULE);
    rep.evidence.assumptions = assumptions();
    rep.evidence.max_samples = 10;
    let tree = match load_tree(ctx) {
        Ok(t) => t,
        Err(e) => {
            rep.infra_errors.push(e);
            return rep;
        }
    };
    let nslots = env_usize("DMV_C20_SLOTS", 8).clamp(1, 8);
    let jobs = env_usize("DMV_C20_JOBS", 4).clamp(1, 16);
    let budget = env_usize("DMV_C20_BUDGET_S", 1800) as f64;
    // stale slots of an earlier run with more slots
    for k in nslots..16 {
        let _ = std::fs::remove_dir_all(slot(ctx, k, jobs).target);
    }
    let (sets, mandatory) = match ctx.tier {
        Tier::Quick => {
            let s = plan_quick(ctx, &tree);
            let n = s.len();
            (s, n)
        }
        Tier::Thorough => plan_thorough(ctx, &tree),
    };
    init_usage_reference(ctx, &tree, jobs, &mut rep);
    let results = run_sets(ctx, &tree, &sets, nslots, jobs, mandatory, budget);

    let nfeat = tree.derive_features.len();
    let mut ran_keys = vec![];
    let (mut singles, mut pairs, mut larger) = (BTreeSet::new(), BTreeSet::new(), 0u64);
    let mut failing_larger: Vec<(FeatSet, SetResult)> = vec![];
    for (set, res) in sets.iter().zip(results.iter()) {
        let Some(res) = res else { continue };
        let ev = &mut rep.evidence;
        ev.eval(1);
        ran_keys.push(set.key());
        let enabled = tree.enabled_derive_features(set);
        if enabled.len() <= 2 || !set.std {
            ev.nontrivial(&set.key());
        }
        let is_full = set.feats == ["full"];
        match (is_full, set.feats.len()) {
            (true, _) => ev.label("corner_full"),
            (_, 1) => {
                ev.label("single");
                singles.insert(set.clone());
            }
            (_, 2) => {
                ev.label("pair");
                pairs.insert(set.clone());
            }
            _ => {
                ev.label("larger_subset");
                larger += 1;
            }
        }
        ev.label(if set.std { "std" } else { "no_std" });
        if !is_full {
            for f in &set.feats {
                ev.label(&format!("feature={f}"));
            }
        }
        if res.build_ok {
            ev.label("stage_build_ok");
        }
        if res.exports_ok {
            ev.label("stage_exports_ok");
        }
        if res.tests_ok {
            ev.label("stage_tests_ok");
        }
        ev.label_n("export_probes_asserted", res.probes_asserted as u64);
        ev.label_n("test_programs_run", res.tests_run.len() as u64);
        ev.label_n("test_functions_passed", res.test_fns_passed);
        ev.label_n("usage_programs_run", res.usage_programs as u64);
        ev.sample(json!({"set": set.key(), "test_programs": res.tests_run, "test_functions_passed": res.test_fns_passed, "items_resolved": res.items_resolved, "usage_programs": res.usage_programs, "secs": (res.secs * 10.0).round() / 10.0}));
        for e in &res.infra {
            rep.infra_errors.push(format!("features {}: {e}", set.key()));
        }
        if !res.fails.is_empty() && !is_full && set.feats.len() > 2 && failing_larger.len() < 2 {
            failing_larger.push((set.clone(), res.clone()));
        } else {
            rep.violations.extend(violations_of(set, res, None));
        }
    }
    // larger failing subsets are reported in minimised form
    let sl0 = slot(ctx, 0, jobs.max(8));
    for (set, res) in failing_larger {
        let (m, mres) = minimise(ctx, &tree, &set, &res, &sl0);
        rep.evidence.add("minimised_larger_subsets", 1);
        rep.violations.extend(violations_of(&m, &mres, (m != set).then_some(&set)));
    }

    let ev = &mut rep.evidence;
    let (c1, c2, c3) = (CLASS_WITH_TRAIT_DERIVE.load(Ordering::Relaxed) as u64, CLASS_HELPER_PRINTS.load(Ordering::Relaxed) as u64, CLASS_HELPER_STD_ERROR.load(Ordering::Relaxed) as u64);
    ev.label_n("class:derive-through-with_trait-path-compiles", c1);
    ev.label_n("class:helper-type-prints", c2);
    ev.label_n("class:helper-type-is-std-error", c3);
    // floors: every set with an enabled derive feature contributes at least one with_trait derive line; a run without any
    // helper-type line would not have looked at the helper impls at all
    if !sets.is_empty() && (c1 < ran_keys.len() as u64 || c2 == 0 || (c3 == 0 && ran_keys.iter().any(|k| k.ends_with("+std")))) {
        rep.infra_errors.push(format!("probe distribution: with_trait derive lines {c1}, helper Display+Debug lines {c2}, helper std::error::Error lines {c3} over {} sets", ran_keys.len()));
    }
    let ev = &mut rep.evidence;
    let total_pairs = nfeat * (nfeat - 1);
    ev.set("sets_run", json!(ran_keys));
    ev.set("sets_planned", json!(sets.len()));
    ev.set("single_configurations_run", json!(format!("{} of {}", singles.len(), 2 * nfeat)));
    ev.set("pair_configurations_run", json!(format!("{} of {}", pairs.len(), total_pairs)));
    ev.set("larger_subsets_run", json!(larger));
    ev.set("parallel_slots", json!(nslots));
    if ctx.tier == Tier::Thorough {
        ev.set("budget_s", json!(budget));
        let all_singles = singles.len() == 2 * nfeat;
        ev.exhaustive = Some(all_singles);
        ev.explanation = format!(
            "exhaustive over the sub-space 'one derive feature x {{std, no std}}' ({} of {} configurations) plus `full` with and without std; pairs: {} of {} configurations in seeded order (budget {} s); {} random larger subsets. Every configuration run is listed in `sets_run`.",
            singles.len(),
            2 * nfeat,
            pairs.len(),
            total_pairs,
            budget,
            larger
        );
        if !all_singles {
            rep.infra_errors.push("not all single-feature configurations were evaluated".into());
        }
    } else {
        ev.explanation = format!(
            "sample rotating with the seed: `full` without std, `constructor` with std, {} of {} single configurations (every derive feature once; seeds 2k and 2k+1 cover all 48), {} of {} pair configurations (a rotating window: 28 consecutive seeds cover all 276 feature pairs, each in one drawn std state), {} larger subset(s); listed in `sets_run`",
            singles.len(),
            2 * nfeat,
            pairs.len(),
            total_pairs,
            larger
        );
    }
    // disk hygiene: keep the slots (they make the next run incremental) unless they grew large
    let total: u64 = (0..nslots).map(|k| dir_size(&slot(ctx, k, jobs).target)).sum();
    ev.set("target_dirs_bytes", json!(total));
    if total > TOTAL_KEEP_BYTES {
        for k in 0..nslots {
            let _ = std::fs::remove_dir_all(slot(ctx, k, jobs).target);
        }
    }
    rep
}

pub fn replay(ctx: &Ctx, case: &Value) -> Report {
    let mut rep = Report::new(RULE);
    let Some(set) = FeatSet::from_json(case) else {
        rep.infra_errors.push("replay case must be {\"features\": [..], \"std\": bool}".into());
        return rep;
    };
    let tree = match load_tree(ctx) {
        Ok(t) => t,
        Err(e) => {
            rep.infra_errors.push(e);
            return rep;
        }
    };
    let sl = slot(ctx, 0, env_usize("DMV_C20_JOBS", 8));
    init_usage_reference(ctx, &tree, sl.jobs, &mut rep);
    let res = eval_set(ctx, &tree, &set, &sl);
    rep.evidence.eval(1);
    for e in &res.infra {
        rep.infra_errors.push(format!("features {}: {e}", set.key()));
    }
    rep.violations = violations_of(&set, &res, None);
    println!(
        "replayed features {}: build_ok={} exports_ok={} tests_ok={} ({} test programs, {} test functions passed)",
        set.key(),
        res.build_ok,
        res.exports_ok,
        res.tests_ok,
        res.tests_run.len(),
        res.test_fns_passed
    );
    rep
}

//! Engine E1: in-process access to the working-tree expanders.
use proc_macro2::TokenStream;
use std::cell::RefCell;
use std::panic::{catch_unwind, AssertUnwindSafe};
use std::sync::Once;

/// One derive macro of the crate: (trait name, cargo feature, module path as written in lib.rs,
/// helper attribute names).
#[derive(Clone, Copy, Debug, PartialEq, Eq, Hash, PartialOrd, Ord)]
pub struct Derive(pub usize);

pub struct DeriveInfo {
    pub name: &'static str,
    pub feature: &'static str,
    pub module: &'static str,
    pub attr: Option<&'static str>,
}

macro_rules! table {
    ($(($name:literal, $feat:literal, $module:literal, $attr:expr, $f:expr)),* $(,)?) => {
        pub const DERIVES: &[DeriveInfo] = &[
            $(DeriveInfo { name: $name, feature: $feat, module: $module, attr: $attr }),*
        ];
        fn dispatch(i: usize, ast: &syn::DeriveInput, name: &'static str) -> Result<TokenStream, syn::Error> {
            let fns: &[fn(&syn::DeriveInput, &'static str) -> Result<TokenStream, syn::Error>] = &[
                $(|a, n| Out::into_res($f(a, n))),*
            ];
            fns[i](ast, name)
        }
    };
}

pub trait Out {
    fn into_res(self) -> Result<TokenStream, syn::Error>;
}
impl Out for TokenStream {
    fn into_res(self) -> Result<TokenStream, syn::Error> {
        Ok(self)
    }
}
impl Out for Result<TokenStream, syn::Error> {
    fn into_res(self) -> Result<TokenStream, syn::Error> {
        self
    }
}

table![
    ("Add", "add", "add_like", None, crate::add_like::expand),
    ("Sub", "add", "add_like", None, crate::add_like::expand),
    ("BitAnd", "add", "add_like", None, crate::add_like::expand),
    ("BitOr", "add", "add_like", None, crate::add_like::expand),
    ("BitXor", "add", "add_like", None, crate::add_like::expand),
    ("AddAssign", "add_assign", "add_assign_like", None, crate::add_assign_like::expand),
    ("SubAssign", "add_assign", "add_assign_like", None, crate::add_assign_like::expand),
    ("BitAndAssign", "add_assign", "add_assign_like", None, crate::add_assign_like::expand),
    ("BitOrAssign", "add_assign", "add_assign_like", None, crate::add_assign_like::expand),
    ("BitXorAssign", "add_assign", "add_assign_like", None, crate::add_assign_like::expand),
    ("AsMut", "as_ref", "r#as::r#mut", Some("as_mut"), crate::r#as::r#mut::expand),
    ("AsRef", "as_ref", "r#as::r#ref", Some("as_ref"), crate::r#as::r#ref::expand),
    ("Constructor", "constructor", "constructor", None, crate::constructor::expand),
    ("Debug", "debug", "fmt::debug", Some("debug"), crate::fmt::debug::expand),
    ("Deref", "deref", "deref", Some("deref"), crate::deref::expand),
    ("DerefMut", "deref_mut", "deref_mut", Some("deref_mut"), crate::deref_mut::expand),
    ("Display", "display", "fmt::display", Some("display"), crate::fmt::display::expand),
    ("Binary", "display", "fmt::display", Some("binary"), crate::fmt::display::expand),
    ("Octal", "display", "fmt::display", Some("octal"), crate::fmt::display::expand),
    ("LowerHex", "display", "fmt::display", Some("lower_hex"), crate::fmt::display::expand),
    ("UpperHex", "display", "fmt::display", Some("upper_hex"), crate::fmt::display::expand),
    ("LowerExp", "display", "fmt::display", Some("lower_exp"), crate::fmt::display::expand),
    ("UpperExp", "display", "fmt::display", Some("upper_exp"), crate::fmt::display::expand),
    ("Pointer", "display", "fmt::display", Some("pointer"), crate::fmt::display::expand),
    ("Error", "error", "error", Some("error"), crate::error::expand),
    ("From", "from", "from", Some("from"), crate::from::expand),
    ("FromStr", "from_str", "from_str", None, crate::from_str::expand),
    ("Index", "index", "index", Some("index"), crate::index::expand),
    ("IndexMut", "index_mut", "index_mut", Some("index_mut"), crate::index_mut::expand),
    ("Into", "into", "into", Some("into"), crate::into::expand),
    ("IntoIterator", "into_iterator", "into_iterator", Some("into_iterator"), crate::into_iterator::expand),
    ("IsVariant", "is_variant", "is_variant", Some("is_variant"), crate::is_variant::expand),
    ("Mul", "mul", "mul_like", Some("mul"), crate::mul_like::expand),
    ("Div", "mul", "mul_like", Some("div"), crate::mul_like::expand),
    ("Rem", "mul", "mul_like", Some("rem"), crate::mul_like::expand),
    ("Shr", "mul", "mul_like", Some("shr"), crate::mul_like::expand),
    ("Shl", "mul", "mul_like", Some("shl"), crate::mul_like::expand),
    ("MulAssign", "mul_assign", "mul_assign_like", Some("mul_assign"), crate::mul_assign_like::expand),
    ("DivAssign", "mul_assign", "mul_assign_like", Some("div_assign"), crate::mul_assign_like::expand),
    ("RemAssign", "mul_assign", "mul_assign_like", Some("rem_assign"), crate::mul_assign_like::expand),
    ("ShrAssign", "mul_assign", "mul_assign_like", Some("shr_assign"), crate::mul_assign_like::expand),
    ("ShlAssign", "mul_assign", "mul_assign_like", Some("shl_assign"), crate::mul_assign_like::expand),
    ("Not", "not", "not_like", None, crate::not_like::expand),
    ("Neg", "not", "not_like", None, crate::not_like::expand),
    ("Sum", "sum", "sum_like", None, crate::sum_like::expand),
    ("Product", "sum", "sum_like", None, crate::sum_like::expand),
    ("TryFrom", "try_from", "try_from", Some("try_from"), crate::try_from::expand),
    ("TryInto", "try_into", "try_into", Some("try_into"), crate::try_into::expand),
    ("TryUnwrap", "try_unwrap", "try_unwrap", Some("try_unwrap"), crate::try_unwrap::expand),
    ("Unwrap", "unwrap", "unwrap", Some("unwrap"), crate::unwrap::expand),
];

impl Derive {
    pub fn by_name(n: &str) -> Option<Derive> {
        DERIVES.iter().position(|d| d.name == n).map(Derive)
    }
    pub fn info(self) -> &'static DeriveInfo {
        &DERIVES[self.0]
    }
    pub fn name(self) -> &'static str {
        self.info().name
    }
    pub fn all() -> impl Iterator<Item = Derive> {
        (0..DERIVES.len()).map(Derive)
    }
}

#[derive(Clone, Debug)]
pub struct PanicInfo {
    pub msg: String,
    pub file: String,
    pub line: u32,
}

#[derive(Clone, Debug)]
pub enum Outcome {
    Ok(TokenStream),
    Err(String),
    Panic(PanicInfo),
}

impl Outcome {
    pub fn kind(&self) -> &'static str {
        match self {
            Outcome::Ok(_) => "ok",
            Outcome::Err(_) => "err",
            Outcome::Panic(_) => "panic",
        }
    }
    pub fn ok_tokens(&self) -> Option<&TokenStream> {
        match self {
            Outcome::Ok(t) => Some(t),
            _ => None,
        }
    }
}

thread_local! {
    static LAST_PANIC: RefCell<Option<PanicInfo>> = const { RefCell::new(None) };
    static CAPTURING: RefCell<bool> = const { RefCell::new(false) };
}

static HOOK: Once = Once::new();

pub fn install_hook() {
    HOOK.call_once(|| {
        let prev = std::panic::take_hook();
        std::panic::set_hook(Box::new(move |info| {
            let capturing = CAPTURING.with(|c| *c.borrow());
            if capturing {
                let msg = if let Some(s) = info.payload().downcast_ref::<&str>() {
                    s.to_string()
                } else if let Some(s) = info.payload().downcast_ref::<String>() {
                    s.clone()
                } else {
                    "<non-string payload>".to_string()
                };
                let (file, line) = info
                    .location()
                    .map(|l| (l.file().to_string(), l.line()))
                    .unwrap_or_default();
                LAST_PANIC.with(|p| *p.borrow_mut() = Some(PanicInfo { msg, file, line }));
            } else {
                prev(info);
            }
        }));
    });
}

/// Runs `f` under `catch_unwind`, capturing the panic location instead of printing it.
pub fn guarded<T>(f: impl FnOnce() -> T) -> Result<T, PanicInfo> {
    install_hook();
    CAPTURING.with(|c| *c.borrow_mut() = true);
    LAST_PANIC.with(|p| *p.borrow_mut() = None);
    let r = catch_unwind(AssertUnwindSafe(f));
    CAPTURING.with(|c| *c.borrow_mut() = false);
    match r {
        Ok(v) => Ok(v),
        Err(_) => Err(LAST_PANIC.with(|p| p.borrow_mut().take()).unwrap_or(PanicInfo {
            msg: "<unknown panic>".into(),
            file: String::new(),
            line: 0,
        })),
    }
}

/// What `impl/src/lib.rs` does for one derive: `expand(&ast, "Trait")` then `Output::process`.
pub fn expand(d: Derive, item: &syn::DeriveInput) -> Outcome {
    let name = d.info().name;
    match guarded(|| dispatch(d.0, item, name)) {
        Ok(Ok(ts)) => Outcome::Ok(ts),
        Ok(Err(e)) => Outcome::Err(e.to_string()),
        Err(p) => Outcome::Panic(p),
    }
}

pub fn expand_src(d: Derive, src: &str) -> Result<Outcome, String> {
    let item: syn::DeriveInput = syn::parse_str(src).map_err(|e| e.to_string())?;
    Ok(expand(d, &item))
}

pub fn mirror_dir() -> std::path::PathBuf {
    std::path::PathBuf::from(
        std::env::var("DMV_MIRROR").unwrap_or_else(|_| "/verif/.work/mirror".to_string()),
    )
}

/// A panic is *deliberate* (a diagnostic for unsupported input) iff it was raised at a source
/// line of `impl/src` that is an explicit `panic!`/`assert!`-family call; anything else
/// (`unreachable!`, `unimplemented!`, `unwrap`/`expect`, index/slice/overflow panics, panics raised
/// inside syn/proc_macro2/core on behalf of the expander) is an internal failure.
pub fn is_deliberate(p: &PanicInfo) -> bool {
    let Some(rel) = p.file.find("impl/src/").map(|i| &p.file[i..]) else {
        return false;
    };
    let path = mirror_dir().join(rel);
    let Ok(text) = std::fs::read_to_string(&path) else {
        return false;
    };
    let Some(line) = text.lines().nth(p.line.saturating_sub(1) as usize) else {
        return false;
    };
    let l = line.trim();
    let has = |m: &str| {
        l.match_indices(m).any(|(i, _)| {
            // must not be the tail of a longer macro name such as `debug_assert!`
            i == 0 || !l[..i].ends_with(|c: char| c.is_alphanumeric() || c == '_')
        })
    };
    (has("panic!(") || has("assert!(") || has("assert_eq!(") || has("assert_ne!("))
        && !l.starts_with("//")
}

/// Cross-checks the dispatch table against `create_derive!` invocations in `impl/src/lib.rs` of the
/// tree under test. Returns a description of the mismatch if any.
pub fn crosscheck_table() -> Result<(), String> {
    let path = mirror_dir().join("impl/src/lib.rs");
    let text = std::fs::read_to_string(&path).map_err(|e| format!("{}: {e}", path.display()))?;
    let mut found: Vec<(String, String, String)> = Vec::new();
    let mut rest = text.as_str();
    while let Some(i) = rest.find("create_derive!(") {
        let after = &rest[i + "create_derive!(".len()..];
        let Some(end) = after.find(");") else { break };
        let body = &after[..end];
        rest = &after[end..];
        if body.contains("$feature") {
            continue;
        }
        let parts: Vec<String> = body
            .split(',')
            .map(|s| s.split_whitespace().collect::<String>())
            .filter(|s| !s.is_empty())
            .collect();
        if parts.len() < 4 {
            return Err(format!("cannot parse create_derive!({body})"));
        }
        found.push((
            parts[0].trim_matches('"').to_string(),
            parts[1].clone(),
            parts[2].clone(),
        ));
    }
    let mine: Vec<(String, String, String)> = DERIVES
        .iter()
        .map(|d| (d.feature.to_string(), d.module.to_string(), d.name.to_string()))
        .collect();
    let mut a = found.clone();
    a.sort();
    let mut b = mine;
    b.sort();
    if a != b {
        let only_tree: Vec<_> = a.iter().filter(|x| !b.contains(x)).collect();
        let only_mine: Vec<_> = b.iter().filter(|x| !a.contains(x)).collect();
        return Err(format!(
            "derive table mismatch: only in tree {only_tree:?}, only in harness {only_mine:?}"
        ));
    }
    Ok(())
}

//! C16 — format arguments are split where Rust's expression grammar splits them.
//!
//! In-process differential: `crate::parsing::Expr` (the derive's token scanner) vs syn's full
//! expression parser on generated comma-separated expression lists; through the whole attribute
//! (sentinel bound, aliases, verbatim re-emission); a sample is cross-validated against rustc's own
//! `$e:expr` matcher in a generated program.
use super::core::*;
use super::dm::{self, Derive, Outcome};
use super::proggen::{build_and_run, CaseSrc, ProgSpec};
use super::progprop::Dice;
use super::tok;
use proc_macro2::TokenStream;
use proptest::strategy::ValueTree;
use rayon::prelude::*;
use serde_json::{json, Value};
use syn::parse::{Parse, ParseStream, Parser};
use syn::punctuated::Punctuated;
use syn::Token;

pub const RULE: &str = "lists of 0..5 expressions from a recursive grammar (depth <= 4) over every expression form (literals, paths, calls, turbofish method calls, casts to generic types and fn pointers, qualified paths, closures with typed parameter lists and explicit return types, qualified paths over generated types, comparisons and shifts with </>, ranges, blocks, if/match/loop, macros, struct literals, arrays, tuples, index/field/try, unary, const-generic braces), optional alias per element written `name = e` or glued `name=e`, optional trailing comma, adversarial adjacency; oracle: syn's full Expr parser (cross-validated on a sample against rustc's own `$e:expr` matcher); checked: same number of elements, token-equal elements, ident() iff single identifier, through real expansions at four re-emission sites (struct/variant/shared-enum display, field-level debug): sentinel bound, verbatim in-order re-emission, single-argument delegating expansion, alias named like the field yields no field bound; non-trivial = >=2 elements and >=1 element containing a comma nested in <>, || or a delimiter group; distinct by token text";

// ------------------------------------------------------------------------------------------------
// expression generator (token strings)

fn ty(d: &mut Dice, depth: usize) -> String {
    let simple = ["u8", "i32", "T", "K", "String", "usize", "&str", "*const u8", "[u8; 4]", "(A, B)", "!"];
    if depth == 0 || d.chance(50) {
        return simple[d.pick(simple.len())].to_string();
    }
    match d.pick(7) {
        0 => format!("M<{}, {}>", ty(d, depth - 1), ty(d, depth - 1)),
        1 => format!("Vec<{}>", ty(d, depth - 1)),
        2 => format!("fn({}, {}) -> {}", ty(d, depth - 1), ty(d, depth - 1), ty(d, depth - 1)),
        3 => format!("Vec<Vec<{}>>", ty(d, depth - 1)),
        4 => format!("<{} as Tr<{}, {}>>::Out", ty(d, depth - 1), ty(d, depth - 1), ty(d, depth - 1)),
        5 => format!("Box<dyn Fn({}, {}) -> {}>", ty(d, depth - 1), ty(d, depth - 1), ty(d, depth - 1)),
        _ => format!("[{}; {{ N + 1 }}]", ty(d, depth - 1)),
    }
}

fn atom(d: &mut Dice) -> String {
    let atoms = [
        "a", "_0", "b", "self.x", "1", "\"s\"", "'c'", "1.5", "x::y", "crate::m::N", "X::<A, B>::f", "<A as T<B, C>>::X", "<Vec<u8>>::new", "_1",
        "b\"bytes\"", "0x1f_u8", "true", "Self::C", "S", "r#type",
        // qualified paths whose `<` is glued to the next punctuation (`<&`, `<<`, `<*`, `<::`, `<'a`)
        "<&A as T<B, C>>::X", "<<A as Tr>::Out as T<B, C>>::f", "<*const A as T<B, C>>::X", "<::m::A as T<B, C>>::X", "<&'static A as T<B, C>>::f(self)",
    ];
    atoms[d.pick(atoms.len())].to_string()
}

pub fn expr(d: &mut Dice, depth: usize) -> String {
    if depth == 0 {
        return atom(d);
    }
    let e = |d: &mut Dice| expr(d, depth - 1);
    match d.weighted(&[6, 3, 3, 4, 4, 6, 2, 3, 2, 2, 2, 2, 2, 2, 2, 2, 2, 2, 2, 3]) {
        0 => atom(d),
        // qualified path over generated types (fn pointers / `dyn Fn(..) -> ..` bring `->` inside the angle brackets)
        19 => match d.pick(3) {
            0 => format!("<{} as Tr<{}, {}>>::X", ty(d, 2), ty(d, 1), ty(d, 1)),
            1 => format!("<{} as Tr<{}, {}>>::f({})", ty(d, 2), ty(d, 1), ty(d, 1), e(d)),
            _ => format!("<{}>::g::<{}, {}>({})", ty(d, 2), ty(d, 1), ty(d, 1), e(d)),
        },
        1 => format!("f({}, {})", e(d), e(d)),
        2 => format!("{}.m::<{}, {}>({})", e(d), ty(d, 1), ty(d, 1), e(d)),
        3 => format!("{} as {}", atom(d), ty(d, 2)),
        4 => match d.pick(7) {
            // explicit return types (the body is then a block); generic arguments bring commas
            5 => format!("|a, b| -> {} {{ {} }}", ty(d, 2), e(d)),
            6 => format!("move || -> M<{}, {}> {{ {} }}", ty(d, 1), ty(d, 1), e(d)),
            0 => format!("|a, b| {}", e(d)),
            1 => format!("|a: {}, b| {}", ty(d, 2), e(d)),
            2 => format!("move |x| {{ {}; {} }}", e(d), e(d)),
            3 => format!("|| {}", e(d)),
            _ => format!("|(a, b), c| {}", e(d)),
        },
        5 => {
            let ops = ["<", ">", ">>", "<<", "+", "==", "!=", "&&", "||", "|", "&", "<=", ">=", "-", "*", "^", "%"];
            format!("{} {} {}", e(d), ops[d.pick(ops.len())], e(d))
        }
        6 => match d.pick(4) {
            0 => format!("{}..{}", atom(d), atom(d)),
            1 => format!("{}..={}", atom(d), atom(d)),
            2 => format!("..{}", atom(d)),
            _ => format!("{}..", atom(d)),
        },
        7 => format!("{}{}", ["-", "!", "*", "&", "&mut "][d.pick(5)], e(d)),
        8 => format!("({}, {})", e(d), e(d)),
        9 => match d.pick(3) {
            0 => format!("[{}, {}]", e(d), e(d)),
            1 => format!("[{}; 3]", e(d)),
            _ => format!("({})", e(d)),
        },
        10 => format!("{{ {}; {} }}", e(d), e(d)),
        11 => format!("if {} {{ {} }} else {{ {} }}", atom(d), e(d), e(d)),
        12 => format!("match {} {{ (p, q) => {}, _ => {} }}", atom(d), e(d), e(d)),
        13 => match d.pick(3) {
            0 => format!("format!(\"{{}}, {{}}\", {}, {})", e(d), e(d)),
            1 => format!("vec![{}, {}]", e(d), e(d)),
            _ => format!("matches!({}, A | B)", atom(d)),
        },
        14 => match d.pick(2) {
            0 => format!("S {{ a: {}, b: {} }}", e(d), e(d)),
            _ => format!("S::<{}, {}> {{ x: {} }}", ty(d, 1), ty(d, 1), e(d)),
        },
        15 => match d.pick(4) {
            0 => format!("{}[{}]", atom(d), e(d)),
            1 => format!("{}.0", atom(d)),
            2 => format!("{}.f", atom(d)),
            _ => format!("{}?", atom(d)),
        },
        16 => format!("f::<{{ N + 1 }}, 3>({})", e(d)),
        17 => match d.pick(3) {
            0 => format!("Vec::<Vec<{}>>::new()", ty(d, 1)),
            1 => format!("{}.collect::<Vec<M<{}, {}>>>()", atom(d), ty(d, 1), ty(d, 1)),
            _ => format!("loop {{ break {}; }}", e(d)),
        },
        _ => format!("unsafe {{ {} }}", e(d)),
    }
}

#[derive(Clone, Debug)]
pub struct ListCase {
    /// elements as generated (alias, expression text)
    pub elems: Vec<(Option<String>, String)>,
    pub trailing_comma: bool,
    /// aliases are written `name=expr` (the `=` glued to whatever punctuation the expression starts with)
    pub glued: bool,
}

impl ListCase {
    pub fn text(&self) -> String {
        let mut s = self
            .elems
            .iter()
            .map(|(a, e)| match a {
                Some(a) if self.glued => format!("{a}={e}"),
                Some(a) => format!("{a} = {e}"),
                None => e.clone(),
            })
            .collect::<Vec<_>>()
            .join(", ");
        if self.trailing_comma && !self.elems.is_empty() {
            s.push(',');
        }
        s
    }
}

fn adversarial(d: &mut Dice) -> Vec<(Option<String>, String)> {
    let sets: [&[&str]; 16] = [
        &["a < b", "c > ::d"],
        &["a < b", "c >> d"],
        &["|a, b| a | b", "c"],
        &["x as M<K, V>", "y"],
        &["x as fn(A, B) -> C", "y"],
        &["a < b", "c > d"],
        &["_0 == _1"],
        &["a == b", "c"],
        &["x as Vec<Vec<u8>>", "y"],
        &["a", "b < c >> d"],
        &["<A as T<B, C>>::X", "f::<A, B>()"],
        &["x as usize < y", "z > w"],
        &["|x| -> M<K, V> { y }", "z"],
        // several speculative `<` scans inside one argument before a real qualified path
        &["0 < x && x < <C as L<A, B>>::MAX", "y"],
        &["a << b < <C as L<A, B>>::MAX", "y"],
        &["a < b", "c < d && e < <C as L<A, B>>::f(g, h)"],
    ];
    sets[d.pick(sets.len())].iter().map(|s| (None, s.to_string())).collect()
}

fn build(d: &mut Dice) -> ListCase {
    if d.chance(12) {
        return ListCase { elems: adversarial(d), trailing_comma: d.chance(30), glued: false };
    }
    let n = d.weighted(&[1, 3, 4, 3, 2, 1]);
    let mut elems = vec![];
    let aliases = ["k", "v", "name", "al", "r#type"];
    let mut used = std::collections::HashSet::new();
    let mut seen_alias = false;
    for _ in 0..n {
        let depth = d.weighted(&[2, 4, 3, 2, 1]);
        let e = expr(d, depth);
        // named arguments must follow positional ones for format_args!, but the splitter must cope with any order
        let alias = if d.chance(if seen_alias { 60 } else { 20 }) {
            let a = aliases[d.pick(aliases.len())];
            if used.insert(a) {
                seen_alias = true;
                Some(a.to_string())
            } else {
                None
            }
        } else {
            None
        };
        elems.push((alias, e));
    }
    ListCase { elems, trailing_comma: d.chance(25), glued: d.chance(25) }
}

// ------------------------------------------------------------------------------------------------
// truth and the derive's view

struct TruthArg {
    alias: Option<syn::Ident>,
    expr: syn::Expr,
    /// the expression's tokens as written (syn's printer is exponential on some deeply nested inputs the fuzzer finds)
    tokens: TokenStream,
}
impl Parse for TruthArg {
    fn parse(input: ParseStream) -> syn::Result<Self> {
        let alias = if input.peek(syn::Ident) && input.peek2(Token![=]) && !input.peek2(Token![==]) {
            let i: syn::Ident = input.parse()?;
            let _: Token![=] = input.parse()?;
            Some(i)
        } else {
            None
        };
        let begin = input.cursor();
        let expr: syn::Expr = input.parse()?;
        let end = input.cursor();
        let mut tokens = TokenStream::new();
        let mut c = begin;
        while c != end {
            let Some((tt, next)) = c.token_tree() else { break };
            tokens.extend(std::iter::once(tt));
            c = next;
        }
        Ok(TruthArg { alias, expr, tokens })
    }
}

struct DmArg {
    alias: Option<syn::Ident>,
    expr: crate::parsing::Expr,
}
impl Parse for DmArg {
    fn parse(input: ParseStream) -> syn::Result<Self> {
        // the alias detection of the derive is checked through the real attribute (see `through_attribute`);
        // here the truth's notion of alias is used so that only the *splitter* is compared
        let alias = if input.peek(syn::Ident) && input.peek2(Token![=]) && !input.peek2(Token![==]) {
            let i: syn::Ident = input.parse()?;
            let _: Token![=] = input.parse()?;
            Some(i)
        } else {
            None
        };
        Ok(DmArg { alias, expr: input.parse()? })
    }
}

/// the frozen splitter's view of a list (same alias convention as `DmArg`)
struct FrozenArg {
    alias: Option<syn::Ident>,
    expr: crate::frozen_parsing::Expr,
}
impl Parse for FrozenArg {
    fn parse(input: ParseStream) -> syn::Result<Self> {
        let alias = if input.peek(syn::Ident) && input.peek2(Token![=]) && !input.peek2(Token![==]) {
            let i: syn::Ident = input.parse()?;
            let _: Token![=] = input.parse()?;
            Some(i)
        } else {
            None
        };
        Ok(FrozenArg { alias, expr: input.parse()? })
    }
}

/// Does the tree's splitter treat `text` exactly as the frozen copy (the recorded behaviour) does?
fn same_as_recorded_behaviour(text: &str) -> bool {
    let Ok(ts) = text.parse::<TokenStream>() else { return false };
    let norm = |v: &Vec<String>| v.iter().map(|s| s.replace('\u{200d}', "")).collect::<Vec<_>>().join(" ");
    let a = dm::guarded(|| Punctuated::<DmArg, Token![,]>::parse_terminated.parse2(ts.clone()))
        .ok()
        .map(|r| r.map(|v| v.iter().map(|a| (a.alias.as_ref().map(|i| i.to_string()), norm(&tok::flat_vec(&quote::ToTokens::to_token_stream(&a.expr))), a.expr.ident().is_some())).collect::<Vec<_>>()).map_err(|_| ()));
    let b = dm::guarded(|| Punctuated::<FrozenArg, Token![,]>::parse_terminated.parse2(ts.clone()))
        .ok()
        .map(|r| r.map(|v| v.iter().map(|a| (a.alias.as_ref().map(|i| i.to_string()), norm(&tok::flat_vec(&quote::ToTokens::to_token_stream(&a.expr))), a.expr.ident().is_some())).collect::<Vec<_>>()).map_err(|_| ()));
    a.is_some() && a == b
}

fn is_single_ident(e: &syn::Expr) -> bool {
    matches!(e, syn::Expr::Path(p) if p.qself.is_none() && p.attrs.is_empty() && p.path.get_ident().is_some())
}

#[derive(Debug)]
enum Verdict {
    /// syn cannot parse the list: outside the domain
    NotRust,
    /// agreement; number of arguments according to the truth parser
    Ok(usize),
    Bad { what: String, expected: String, observed: String },
}

fn check_list(text: &str) -> Verdict {
    let Ok(ts) = text.parse::<TokenStream>() else { return Verdict::NotRust };
    let truth = match Punctuated::<TruthArg, Token![,]>::parse_terminated.parse2(ts.clone()) {
        Ok(t) => t,
        Err(_) => return Verdict::NotRust,
    };
    let t_elems: Vec<(Option<String>, Vec<String>, bool)> = truth
        .iter()
        .map(|a| (a.alias.as_ref().map(|i| i.to_string()), tok::flat_vec(&a.tokens), is_single_ident(&a.expr)))
        .collect();
    let dmr = dm::guarded(|| Punctuated::<DmArg, Token![,]>::parse_terminated.parse2(ts.clone()));
    let dmv = match dmr {
        Err(p) => {
            return Verdict::Bad { what: "splitter panicked".into(), expected: "a split".into(), observed: format!("panic {}:{} {}", p.file, p.line, p.msg) }
        }
        Ok(Err(e)) => {
            return Verdict::Bad {
                what: "valid expression list rejected by the derive's splitter".into(),
                expected: format!("{} elements", t_elems.len()),
                observed: format!("parse error: {e}"),
            }
        }
        Ok(Ok(v)) => v,
    };
    let d_elems: Vec<(Option<String>, Vec<String>, bool)> = dmv
        .iter()
        .map(|a| (a.alias.as_ref().map(|i| i.to_string()), tok::flat_vec(&quote::ToTokens::to_token_stream(&a.expr)), a.expr.ident().is_some()))
        .collect();
    let show = |v: &[(Option<String>, Vec<String>, bool)]| -> String {
        v.iter().map(|(a, t, _)| format!("[{}{}]", a.as_ref().map(|a| format!("{a} = ")).unwrap_or_default(), t.join(" ").replace('\u{200d}', ""))).collect::<Vec<_>>().join(" ")
    };
    if t_elems.len() != d_elems.len() {
        return Verdict::Bad { what: "different number of arguments".into(), expected: show(&t_elems), observed: show(&d_elems) };
    }
    for (t, dd) in t_elems.iter().zip(&d_elems) {
        // syn may drop None-delimited groups / reorder nothing else: compare flat tokens ignoring joint markers
        let norm = |v: &Vec<String>| v.iter().map(|s| s.replace('\u{200d}', "")).collect::<Vec<_>>().join("");
        if t.0 != dd.0 || norm(&t.1) != norm(&dd.1) {
            return Verdict::Bad { what: "argument tokens differ".into(), expected: show(&t_elems), observed: show(&d_elems) };
        }
        // lexically identifiers but not path expressions (`_` is not even a valid argument expression): don't care
        let kw_lit = t.1.len() == 1 && syn::parse_str::<syn::Ident>(&t.1[0]).is_err() && t.1[0].chars().all(|c| c.is_alphanumeric() || c == '_');
        if t.2 != dd.2 && !kw_lit {
            return Verdict::Bad {
                what: "single-identifier classification differs".into(),
                expected: format!("ident={} for {}", t.2, t.1.join(" ")),
                observed: format!("ident={}", dd.2),
            };
        }
    }
    Verdict::Ok(t_elems.len())
}

/// The places an argument list is re-emitted from: struct-level, variant-level and shared enum-level `#[display(..)]`
/// and a field-level `#[debug(..)]`. Returns (item source, derive, formatting trait of the sentinel's bound).
fn host(k: u64, body: &str) -> (String, &'static str, &'static str) {
    match k % 4 {
        0 => (format!("#[display({body})] struct S<T>(T);"), "Display", "Display"),
        1 => (format!("enum S<T> {{ #[display({body})] A(T) }}"), "Display", "Display"),
        2 => (format!("struct S<T>(#[debug({body})] T);"), "Debug", "Display"), // (`{N}` names the Display trait)
        _ => (format!("#[display({body})] enum S<T> {{ A(T), B(T) }}"), "Display", "Display"),
    }
}

/// Through the whole attribute: `#[display("{N}", e1, .., en, _0)] struct S<T>(T)` must infer `T: Display` iff the
/// derive counts exactly n arguments before the sentinel; and the argument tokens must re-appear verbatim and in order.
/// The host item and a trailing comma after the sentinel vary with the list (hash of its text).
fn through_attribute(text: &str, n_truth: usize, has_alias: bool) -> Option<(String, String, String)> {
    let h = super::core::fnv(text);
    let list = text.trim_end().trim_end_matches(',').trim();
    let tc = if (h >> 8) & 1 == 1 { "," } else { "" };
    let (lit, args) = if has_alias {
        // named arguments cannot precede the positional sentinel; use a named sentinel instead
        ("{zz}".to_string(), if list.is_empty() { format!("zz = _0{tc}") } else { format!("{list}, zz = _0{tc}") })
    } else {
        (format!("{{{n_truth}}}"), if list.is_empty() { format!("_0{tc}") } else { format!("{list}, _0{tc}") })
    };
    let (src, derive, tr) = host(h, &format!("\"{lit}\", {args}"));
    if let Some(bad) = attr_check(&src, derive, Some(tr), &args, text) {
        return Some(bad);
    }
    // a single argument under a bare placeholder takes the delegating expansion (no `write!`): verbatim there too
    if n_truth == 1 && !has_alias {
        let (src, derive, _) = host(h >> 2, &format!("\"{{}}\", {list}{tc}"));
        return attr_check(&src, derive, None, list, text);
    }
    None
}

/// The derive's own notion of `name =` (not only the splitter's): the first alias whose expression is not a single
/// identifier is renamed to `_0`, the name of the only field, and is the placeholder's target. For `format_args!` the
/// placeholder `{_0}` then denotes that argument, not the field, so no `T: Display` bound may be inferred.
fn alias_shadows_field(c: &ListCase) -> Option<(String, String, String)> {
    let k = c.elems.iter().position(|(a, e)| {
        a.is_some() && syn::parse_str::<syn::Expr>(e).map(|x| !is_single_ident(&x) && !matches!(x, syn::Expr::Assign(_))).unwrap_or(false)
    })?;
    let mut c2 = c.clone();
    c2.elems[k].0 = Some("_0".into());
    c2.trailing_comma = false;
    let list = c2.text();
    if !matches!(check_list(&list), Verdict::Ok(_)) {
        return None;
    }
    let src = format!("#[display(\"{{_0}}\", {list})] struct S<T>(T);");
    let item: syn::DeriveInput = syn::parse_str(&src).ok()?;
    match dm::expand(Derive::by_name("Display").unwrap(), &item) {
        Outcome::Ok(ts) => {
            let has_bound = tok::impls(&ts)
                .ok()
                .map(|is| is.iter().any(|i| tok::where_preds(i).iter().any(|(t, b)| t == "T" && b.iter().any(|x| x == "Display"))))
                .unwrap_or(false);
            has_bound.then(|| {
                (
                    format!("an alias named like the field is not recognised as the placeholder's target for `{src}`"),
                    "no `T: Display` bound (`{_0}` denotes the named argument `_0 = ..`, as for format_args!)".to_string(),
                    tok::norm(&ts.to_string()),
                )
            })
        }
        Outcome::Err(e) => Some((format!("valid argument list rejected for `{src}`"), "an expansion".into(), format!("derive error: {e}"))),
        Outcome::Panic(_) => None,
    }
}

fn attr_check(src: &str, derive: &str, bound: Option<&str>, args: &str, text: &str) -> Option<(String, String, String)> {
    let item: syn::DeriveInput = syn::parse_str(src).ok()?;
    // the sentinel extends the list: a split difference that only shows with it is reported as such (so that the
    // defect models of `sig_for` apply to it)
    if let Verdict::Bad { what, expected, observed } = check_list(args) {
        return Some((format!("{what} (list extended by the sentinel argument): `{args}`"), expected, observed));
    }
    match dm::expand(Derive::by_name(derive).unwrap(), &item) {
        Outcome::Ok(ts) => {
            if let Some(tr) = bound {
                let impls = tok::impls(&ts).ok();
                let has_bound = impls
                    .map(|is| is.iter().any(|i| tok::where_preds(i).iter().any(|(t, b)| t == "T" && b.iter().any(|x| x == tr))))
                    .unwrap_or(false);
                if !has_bound {
                    // if the expansion does not re-parse (impls() failed) that is reported as verbatim failure below
                    return Some((
                        format!("sentinel bound missing for `{src}`"),
                        format!("where T: {tr} (the sentinel `_0` is the argument the placeholder refers to)"),
                        tok::norm(&ts.to_string()),
                    ));
                }
            }
            // verbatim, in order
            if let Ok(args) = text.trim_end().trim_end_matches(',').parse::<TokenStream>() {
                let needle = tok::flat_vec(&args);
                let hay = tok::flat_vec(&ts);
                if !contains_seq_spacing(&hay, &needle) {
                    return Some((
                        format!("arguments are not handed over token for token for `{src}`"),
                        needle.join(" ").replace('\u{200d}', ""),
                        tok::norm(&ts.to_string()),
                    ));
                }
            }
            None
        }
        Outcome::Err(e) => Some((format!("valid argument list rejected for `{src}`"), "an expansion".into(), format!("derive error: {e}"))),
        Outcome::Panic(_) => None, // C18
    }
}

/// contiguous-subsequence test that is sensitive to punctuation spacing (`==` vs `= =`) except on the last
/// token of the needle, whose spacing depends on what follows it in the surrounding stream
fn contains_seq_spacing(hay: &[String], needle: &[String]) -> bool {
    if needle.is_empty() {
        return true;
    }
    let strip = |s: &String| s.replace('\u{200d}', "");
    // a `=` glued to a token it cannot form a compound token with (`name=*x`) means the same as a free-standing one
    // (only `==` and `=>` start with `=`): the derive re-creates the `=` of an alias, so that spacing is not compared
    let norm_eq = |v: &[String]| -> Vec<String> {
        (0..v.len())
            .map(|i| {
                if v[i] == "=\u{200d}" && v.get(i + 1).map_or(true, |nx| !nx.starts_with('=') && !nx.starts_with('>')) {
                    "=".to_string()
                } else {
                    v[i].clone()
                }
            })
            .collect()
    };
    let (hay, needle) = (&norm_eq(hay)[..], &norm_eq(needle)[..]);
    let n = needle.len();
    hay.windows(n).any(|w| w[..n - 1] == needle[..n - 1] && strip(&w[n - 1]) == strip(&needle[n - 1]))
}

fn nontrivial(c: &ListCase) -> bool {
    c.elems.len() >= 2
        && c.elems.iter().any(|(_, e)| {
            e.contains(',') // a comma inside an element is necessarily nested in <>, || or a delimiter group
        })
}

/// Defect models of recorded findings, expressed as "the disagreement disappears when the construct the
/// defect is about is rewritten away" (used only for signatures listed in known_findings.json).
fn sig_for(what: &str, text: &str, _expected: &str, _observed: &str) -> Option<String> {
    use syn::visit_mut::VisitMut;
    if !(what.contains("different number") || what.contains("argument tokens differ") || what.contains("rejected by the derive's splitter")) {
        return None;
    }
    let text: &str = match what.split_once("(list extended by the sentinel argument): `") {
        Some((_, r)) => r.trim_end_matches('`'),
        None => text,
    };
    // a recorded finding is the recorded behaviour: the tree's splitter must do exactly what the frozen copy does
    if !same_as_recorded_behaviour(text) {
        return None;
    }
    let ts = text.parse::<TokenStream>().ok()?;
    let truth = Punctuated::<TruthArg, Token![,]>::parse_terminated.parse2(ts).ok()?;
    let rerender = |f: &mut dyn FnMut(&mut syn::Expr)| -> String {
        truth
            .iter()
            .map(|a| {
                let mut e = a.expr.clone();
                f(&mut e);
                let t = quote::ToTokens::to_token_stream(&e).to_string();
                match &a.alias {
                    Some(al) => format!("{al} = {t}"),
                    None => t,
                }
            })
            .collect::<Vec<_>>()
            .join(", ")
    };
    struct NoBitOr;
    impl VisitMut for NoBitOr {
        fn visit_expr_binary_mut(&mut self, b: &mut syn::ExprBinary) {
            if matches!(b.op, syn::BinOp::BitOr(_)) {
                b.op = syn::BinOp::BitXor(Default::default());
            }
            if matches!(b.op, syn::BinOp::BitOrAssign(_)) {
                b.op = syn::BinOp::BitXorAssign(Default::default());
            }
            syn::visit_mut::visit_expr_binary_mut(self, b);
        }
    }
    struct NoGenericCast;
    impl VisitMut for NoGenericCast {
        fn visit_expr_cast_mut(&mut self, c: &mut syn::ExprCast) {
            *c.ty = syn::parse_quote!(u8);
            syn::visit_mut::visit_expr_cast_mut(self, c);
        }
    }
    struct NoLt;
    impl VisitMut for NoLt {
        fn visit_expr_binary_mut(&mut self, b: &mut syn::ExprBinary) {
            if matches!(b.op, syn::BinOp::Lt(_) | syn::BinOp::Le(_) | syn::BinOp::Shl(_) | syn::BinOp::ShlAssign(_)) {
                b.op = syn::BinOp::Add(Default::default());
            }
            syn::visit_mut::visit_expr_binary_mut(self, b);
        }
    }
    let agrees = |t: &str| matches!(check_list(t), Verdict::Ok(_));
    // necessary conditions of the recorded defects on the list's top-level tokens (groups are single trees for the
    // scanner), so that a different mis-split of a list that merely contains `|`, `<` or `as` is not attributed to them:
    //  - binary `|` taken for a closure head: the scan needs a second top-level `|` to close the "parameter list"
    //    (without one it fails at the end of the list and the token is taken on its own);
    //  - `<` taken for a qualified path: some later top-level `>` must be followed by `::`;
    //  - cast to a generic type: a top-level `as`.
    let top: Vec<String> = text
        .parse::<TokenStream>()
        .ok()?
        .into_iter()
        .map(|tt| match tt {
            proc_macro2::TokenTree::Group(_) => "(..)".to_string(),
            other => other.to_string(),
        })
        .collect();
    let pre = [
        top.iter().any(|t| t == "as"),
        top.iter().filter(|t| *t == "|").count() >= 2,
        top.windows(3).any(|w| w[0] == ">" && w[1] == ":" && w[2] == ":"),
    ];
    let base = rerender(&mut |_| {});
    let names = ["c16-cast-to-generic-type-split", "c16-binary-or-taken-for-closure", "c16-less-than-taken-for-qualified-path"];
    // smallest set of rewrites that makes the disagreement disappear
    let mut masks: Vec<u32> = (1u32..8).collect();
    masks.sort_by_key(|m| m.count_ones());
    for mask in masks {
        if (0..3).any(|i| mask & (1 << i) != 0 && !pre[i]) {
            continue;
        }
        let t = rerender(&mut |e| {
            if mask & 1 != 0 {
                NoGenericCast.visit_expr_mut(e);
            }
            if mask & 2 != 0 {
                NoBitOr.visit_expr_mut(e);
            }
            if mask & 4 != 0 {
                NoLt.visit_expr_mut(e);
            }
        });
        if t != base && agrees(&t) {
            let parts: Vec<&str> = (0..3).filter(|i| mask & (1 << i) != 0).map(|i| names[i]).collect();
            return Some(parts.join("+"));
        }
    }
    None
}

/// a combination of recorded defects counts as known only if every member is listed
fn resolve_sig(ctx: &Ctx, sig: Option<String>) -> Option<String> {
    let s = sig?;
    if s.contains('+') {
        let parts: Vec<&str> = s.split('+').collect();
        if parts.iter().all(|p| ctx.is_known(p)) {
            return Some(parts[0].to_string());
        }
    }
    Some(s)
}

pub fn run(ctx: &Ctx) -> Report {
    let mut rep = Report::new(RULE);
    rep.evidence.max_samples = 10;
    rep.evidence.assumptions = vec![
        "syn 2 (full) is the fast proxy for Rust's expression grammar; a sample is cross-validated against rustc's `$e:expr` matcher and syn-vs-rustc disagreements are excluded".into(),
    ];
    // (rounds bound the memory of the value trees; each round has its own seeded runner)
    let n = 200_000usize;
    let rounds = ctx.tier.pick(1u32, 8);
    let sample_n = ctx.tier.pick(1000usize, 20_000);
    let mut sample: Vec<String> = vec![];
    let mut seen = std::collections::HashSet::new();
    let mut bad: Vec<(String, String, String, String)> = vec![];
    for round in 0..rounds {
    let mut runner = ctx.runner(round);
    let dice = proptest::collection::vec(proptest::num::u16::ANY, 200..=200);
    let cases: Vec<ListCase> = draw(&mut runner, &dice, n).into_iter().map(|t| build(&mut Dice::new(t.current()))).collect();
    let results: Vec<(Verdict, Option<(String, String, String)>, usize)> = cases
        .par_iter()
        .map(|c| {
            let text = c.text();
            let v = check_list(&text);
            let mut extra = None;
            if let Verdict::Ok(n_truth) = v {
                // (the generator's own element count may differ from the grammar's: `a.. | |x, y| z, w` reads differently)
                extra = through_attribute(&text, n_truth, c.elems.iter().any(|(a, _)| a.is_some()));
                if extra.is_none() {
                    extra = alias_shadows_field(c);
                }
            }
            (v, extra, c.elems.len())
        })
        .collect();
    for (i, (v, extra, _)) in results.iter().enumerate() {
        let c = &cases[i];
        let text = c.text();
        rep.evidence.eval(1);
        match v {
            Verdict::NotRust => rep.evidence.label("not_accepted_by_syn"),
            Verdict::Ok(_) => rep.evidence.label("agree"),
            Verdict::Bad { what, expected, observed } => {
                rep.evidence.label("disagree");
                bad.push((what.clone(), text.clone(), expected.clone(), observed.clone()));
            }
        }
        if let Some((what, e, o)) = extra {
            rep.evidence.label("attribute_level_disagree");
            bad.push((what.clone(), text.clone(), e.clone(), o.clone()));
        }
        if !matches!(v, Verdict::NotRust) {
            if nontrivial(c) && seen.insert(hash_str(&text)) {
                rep.evidence.nontrivial(&text);
            }
            if c.elems.iter().any(|(a, _)| a.is_some()) {
                rep.evidence.label("has_alias");
            }
            if round == 0 && i % (n / 8).max(1) == 0 {
                rep.evidence.sample(json!(text));
            }
        }
    }
    for (i, c) in cases.iter().enumerate() {
        if sample.len() >= sample_n {
            break;
        }
        if c.elems.iter().all(|(a, _)| a.is_none()) && !c.elems.is_empty() && matches!(results[i].0, Verdict::Ok(_) | Verdict::Bad { .. }) {
            sample.push(c.text());
        }
    }
    }
    // minimise: drop elements / shrink by keeping the failing kind
    let mut reported = std::collections::HashSet::new();
    bad.sort_by_key(|b| b.1.len());
    // (the defect-model attribution re-parses each list under up to seven rewrites: done in parallel)
    let sigs: Vec<Option<String>> = bad.par_iter().map(|(what, text, e, o)| sig_for(what, text, e, o)).collect();
    for ((what, text, e, o), sig) in bad.into_iter().zip(sigs) {
        let kind = what.split(" for `").next().unwrap_or(&what).to_string();
        let sig = resolve_sig(ctx, sig);
        let key = format!("{kind}|{sig:?}");
        if let Some(s) = &sig {
            if ctx.is_known(s) {
                rep.violations.push(Violation { sig, summary: format!("{kind}: `{text}`"), case: json!({"list": text}), expected: e, observed: o });
                continue;
            }
        }
        if reported.len() >= 12 || !reported.insert(key) {
            continue;
        }
        rep.violations.push(Violation { sig, summary: format!("{kind}: `{text}`"), case: json!({"list": text}), expected: e, observed: o });
    }

    // E3: coverage-guided campaign on the splitter (thorough tier)
    if ctx.tier == Tier::Thorough {
        let secs: u64 = std::env::var("DMV_FUZZ_SECS").ok().and_then(|s| s.parse().ok()).unwrap_or(240);
        match super::fuzzrun::run_campaign(ctx, "expr_split", secs, 8, true) {
            Ok(c) => {
                rep.evidence.set("fuzz_expr_split_executions", json!(c.runs));
                rep.evidence.eval(c.runs);
                let mut slow = 0u64;
                let mut not_reproduced = 0u64;
                for (bytes, kind) in c.crashes.into_iter().zip(c.kinds) {
                    let text = fuzz_decode(&bytes);
                    // (a `timeout-` artifact: the reference side — syn parsing / printing a pathologically nested input —
                    // may be what is slow; re-evaluate under a watchdog and drop the input if the oracle cannot decide)
                    let t2 = text.clone();
                    let (tx, rx) = std::sync::mpsc::channel();
                    // (a generous stack: syn's recursive-descent parser needs far more than a thread's default 2 MB on the
                    // deeply nested inputs the fuzzer likes — a snapshot run aborted with a stack overflow here)
                    let _ = std::thread::Builder::new().stack_size(1 << 30).spawn(move || {
                        let _ = tx.send(check_text(&t2));
                    });
                    let verdict = match rx.recv_timeout(std::time::Duration::from_secs(60)) {
                        Ok(v) => v,
                        Err(_) => {
                            slow += 1;
                            continue;
                        }
                    };
                    if kind != "crash" && verdict.is_none() {
                        slow += 1;
                        continue;
                    }
                    if let Some((what, e, o, sig)) = verdict {
                        let sig = resolve_sig(ctx, sig);
                        rep.violations.push(Violation { sig, summary: format!("{what}: `{text}` (found by fuzzing)"), case: json!({"list": text}), expected: e, observed: o });
                    } else {
                        // the target process died on an input on which splitter and reference agree here: the reference side
                        // (syn's recursive descent on an 8 MB main-thread stack) gave out, not the code under test
                        not_reproduced += 1;
                    }
                }
                rep.evidence.set("fuzz_inputs_dropped_because_the_reference_parser_is_slow_on_them", json!(slow));
                rep.evidence.set("fuzz_crash_artifacts_not_reproduced_in_process", json!(not_reproduced));
            }
            Err(e) => rep.infra_errors.push(format!("fuzz campaign expr_split: {e}")),
        }
    }

    // rustc cross-validation of the proxy on a sample (alias-free lists)
    sample.sort();
    sample.dedup();
    match rustc_split(ctx, &sample) {
        Ok(truths) => {
            let mut disagree = 0u64;
            let mut checked = 0u64;
            for (text, rt) in sample.iter().zip(truths) {
                let Some(rt) = rt else {
                    rep.evidence.label("rustc_rejects_list");
                    continue;
                };
                checked += 1;
                let Ok(ts) = text.parse::<TokenStream>() else { continue };
                let Ok(synp) = Punctuated::<syn::Expr, Token![,]>::parse_terminated.parse2(ts) else { continue };
                let strip = |s: &str| s.chars().filter(|c| !c.is_whitespace() && *c != ',').collect::<String>();
                let syn_elems: Vec<String> = synp.iter().map(|e| strip(&quote::ToTokens::to_token_stream(e).to_string())).collect();
                let rt_elems: Vec<String> = rt.iter().map(|e| strip(e)).collect();
                if syn_elems != rt_elems {
                    disagree += 1;
                }
            }
            rep.evidence.set("rustc_cross_validated_lists", json!(checked));
            rep.evidence.set("syn_vs_rustc_disagreements", json!(disagree));
        }
        Err(e) => rep.infra_errors.push(format!("rustc cross-validation: {e}")),
    }
    rep
}

/// rustc's own split of each list: `None` if rustc does not accept the list as `$($e:expr),*`.
fn rustc_split(ctx: &Ctx, lists: &[String]) -> Result<Vec<Option<Vec<String>>>, String> {
    let spec = ProgSpec {
        name: "gen_c16".into(),
        prelude: "macro_rules! split { ($($e:expr),* $(,)?) => { [$(stringify!($e)),*] } }\n".into(),
        crate_attrs: String::new(),
        nightly: false,
        check_only: false,
        shards: 16,
    };
    let cases: Vec<CaseSrc> = lists
        .iter()
        .map(|l| CaseSrc {
            body: format!(
                "pub fn run(o: &mut Out) {{\n    let v: &[&str] = &split!({l});\n    o.put(\"n\", &v.len().to_string());\n    for e in v {{ o.put(\"e\", e); }}\n}}"
            ),
            runnable: true,
            negative: false,
        })
        .collect();
    let built = build_and_run(ctx, &spec, &cases)?;
    Ok(built
        .results
        .iter()
        .map(|r| {
            if !r.compiled || r.no_record {
                None
            } else {
                Some(r.obs.iter().filter_map(|l| l.strip_prefix("e=")).map(|s| s.to_string()).collect())
            }
        })
        .collect())
}

const DICT: [&str; 96] = [
    "a", "b", "_0", "_1", "x", "self", "S", "T", "K", "V", "M", "f", "m", "u8", "i32", "usize", "String", "Vec", "Box", "Option",
    "1", "2", "0x1f", "1.5", "\"s\"", "'c'", "b\"x\"", "true", "r#type", "crate", "Self", "N",
    ",", ",", ",", "::", "::", "<", ">", "<", ">", "<<", ">>", "<=", ">=", "==", "!=", "=", "|", "||", "&", "&&", "+", "-", "*", "/", "%", "^", "!", "?", ".", "..", "..=", ":", ";", "->", "=>", "#", "@", "'a",
    "as", "as", "fn", "dyn", "move", "if", "else", "match", "loop", "break", "return", "unsafe", "let", "mut", "ref", "in", "for", "while", "const", "where", "impl", "struct", "_", "$", "k =", "al =",
];

/// byte string -> token text (fuzz target `expr_split`): token dictionary + nesting operators
pub fn fuzz_decode(data: &[u8]) -> String {
    let mut out = String::new();
    let mut stack: Vec<char> = vec![];
    for &b in data.iter().take(400) {
        match b {
            0..=95 => {
                out.push_str(DICT[b as usize]);
                out.push(' ');
            }
            96..=111 => {
                let (o, c) = [('(', ')'), ('[', ']'), ('{', '}')][(b as usize - 96) % 3];
                if stack.len() < 24 {
                    out.push(o);
                    stack.push(c);
                }
            }
            112..=127 => {
                if let Some(c) = stack.pop() {
                    out.push(c);
                    out.push(' ');
                }
            }
            _ => {
                out.push_str(DICT[(b as usize) % 96]);
                out.push(' ');
            }
        }
    }
    while let Some(c) = stack.pop() {
        out.push(c);
    }
    out
}


/// One token text through the splitter comparison and the attribute-level checks: used by the fuzz target.
pub fn check_text(text: &str) -> Option<(String, String, String, Option<String>)> {
    match check_list(text) {
        Verdict::Bad { what, expected, observed } => {
            let sig = sig_for(&what, text, &expected, &observed);
            Some((what, expected, observed, sig))
        }
        Verdict::Ok(_) => {
            let ts = text.parse::<TokenStream>().ok()?;
            let t = Punctuated::<TruthArg, Token![,]>::parse_terminated.parse2(ts).ok()?;
            // the attribute-level check re-parses user tokens through format_args!-like positions: only lists that
            // format_args! accepts (named arguments after positional ones)
            let mut seen_named = false;
            for a in t.iter() {
                if a.alias.is_some() {
                    seen_named = true;
                } else if seen_named {
                    return None;
                }
            }
            through_attribute(text, t.len(), t.iter().any(|a| a.alias.is_some())).map(|(what, e, o)| {
                let sig = sig_for(&what, text, &e, &o);
                (what, e, o, sig)
            })
        }
        Verdict::NotRust => None,
    }
}

pub fn replay(ctx: &Ctx, case: &Value) -> Report {
    let mut rep = Report::new(RULE);
    rep.evidence.eval(1);
    let text = case["list"].as_str().unwrap_or("");
    match check_list(text) {
        Verdict::Bad { what, expected, observed } => {
            rep.violations.push(Violation { sig: resolve_sig(ctx, sig_for(&what, text, &expected, &observed)), summary: format!("{what}: `{text}`"), case: case.clone(), expected, observed })
        }
        Verdict::Ok(_) => {
            if let Ok(ts) = text.parse::<TokenStream>() {
                if let Ok(t) = Punctuated::<TruthArg, Token![,]>::parse_terminated.parse2(ts) {
                    if let Some((what, e, o)) = through_attribute(text, t.len(), t.iter().any(|a| a.alias.is_some())) {
                        rep.violations.push(Violation { sig: resolve_sig(ctx, sig_for(&what, text, &e, &o)), summary: format!("{what}: `{text}`"), case: case.clone(), expected: e, observed: o });
                    }
                }
            }
        }
        Verdict::NotRust => {}
    }
    rep
}

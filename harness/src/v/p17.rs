//! C17 — synonymous attribute spellings are equivalent; unknown / duplicated / meaningless / legacy /
//! contradictory arguments are rejected with a diagnostic, never silently ignored.
//!
//! Engine E1 (in-process): per attribute-taking derive a grammar model of its *documented* attribute
//! language per position (each production cites impl/doc/*.md), a generator of well-formed attributed
//! items, rewrites that must be token-equal after normalisation and single-step corruptions that must be
//! rejected (`Outcome::Err` or a deliberate panic). A sample of every (derive, position, kind) cell goes
//! through the real proc-macro (engine E2) to cover helper-attribute registration in impl/src/lib.rs.
use super::core::*;
use super::dm::{self, Derive, Outcome};
use super::proggen::{build_and_run, CaseSrc, ProgSpec};
use super::progprop::Dice;
use super::tok;
use proptest::strategy::ValueTree;
use rayon::prelude::*;
use serde_json::{json, Value};
use std::collections::{BTreeMap, HashSet};

pub const RULE: &str = "for every attribute-taking derive (34) and every position its documentation names (struct / enum / union / variant / field): well-formed attributed items from a per-family grammar model; rewrites (skip<->ignore, bound<->bounds, one attribute with n types <-> n attributes, trailing comma in list positions, permutation of the attributes of one item incl. two `bound(..)` attributes and non-integer `#[repr(..)]` hints next to `#[try_from(repr)]`, one `bound(P1, P2)` <-> two attributes) must expand Ok and token-equal after sorting top-level items and the where-predicates of each impl; single-step corruptions (unknown identifier where the grammar cannot read it as a type/expression, duplicated literal / rename_all / repr / try_from(repr), argument meaningless for the item kind, legacy `fmt =` / `bound =` / `types(..)`, contradictions `X`+`not(X)`, `skip`/`ignore`+selector, AsRef struct-level+field-level attribute, Into plain types+wrapped kinds in one attribute, the same Error selector on two fields, an unknown `rename_all` casing) of an item whose uncorrupted form expands Ok must yield Err or a deliberate panic (an internal panic is no diagnostic and is reported); a sample of every cell is compiled with the real proc-macro (positive: both spellings compile and a derive-specific probe prints the same; negative: rustc reports a derive diagnostic). Non-trivial = every case (each is a rewrite or a corruption); distinct by (derive, base item, variant item); every (derive, position, kind) cell must reach >= 5 distinct cases";

// ------------------------------------------------------------------------------------------------
// model of attributed items

#[derive(Clone, Debug, PartialEq)]
enum Arg {
    /// `skip`, `forward`, `owned`, `source`, `repr`
    Flag(String),
    /// `head(inner, ..)` with optional trailing comma inside: `bound(T: X)`, `not(source)`, `ref(i32)`
    Call(String, Vec<String>, bool),
    /// format literal (token text incl. quotes)
    Lit(String),
    /// format argument expression
    Expr(String),
    /// a type of a type list
    Ty(String),
    /// `rename_all = "snake_case"`
    NameValue(String, String),
    /// anything else (corruptions)
    Raw(String),
}

impl Arg {
    fn render(&self) -> String {
        match self {
            Arg::Flag(s) | Arg::Lit(s) | Arg::Expr(s) | Arg::Ty(s) | Arg::Raw(s) => s.clone(),
            Arg::Call(h, inner, tr) => format!("{h}({}{})", inner.join(", "), if *tr && !inner.is_empty() { "," } else { "" }),
            Arg::NameValue(k, v) => format!("{k} = {v}"),
        }
    }
    fn flag(s: &str) -> Arg {
        Arg::Flag(s.to_string())
    }
    fn call(h: &str, inner: &[&str]) -> Arg {
        Arg::Call(h.to_string(), inner.iter().map(|s| s.to_string()).collect(), false)
    }
    fn is_flag(&self, s: &str) -> bool {
        matches!(self, Arg::Flag(x) if x == s)
    }
}

#[derive(Clone, Debug, PartialEq)]
struct Attr {
    name: String,
    /// `None` = bare `#[name]`
    args: Option<Vec<Arg>>,
    /// trailing comma after the last top-level argument
    trailing: bool,
}

impl Attr {
    fn bare(name: &str) -> Attr {
        Attr { name: name.to_string(), args: None, trailing: false }
    }
    fn with(name: &str, args: Vec<Arg>) -> Attr {
        Attr { name: name.to_string(), args: Some(args), trailing: false }
    }
    fn raw(name: &str, body: &str) -> Attr {
        Attr::with(name, vec![Arg::Raw(body.to_string())])
    }
    fn render(&self) -> String {
        match &self.args {
            None => format!("#[{}]", self.name),
            Some(a) => format!(
                "#[{}({}{})]",
                self.name,
                a.iter().map(|x| x.render()).collect::<Vec<_>>().join(", "),
                if self.trailing && !a.is_empty() { "," } else { "" }
            ),
        }
    }
    fn args(&self) -> &[Arg] {
        self.args.as_deref().unwrap_or(&[])
    }
    fn has_lit(&self) -> bool {
        self.args().iter().any(|a| matches!(a, Arg::Lit(_)))
    }
    fn has_call(&self, heads: &[&str]) -> bool {
        self.args().iter().any(|a| matches!(a, Arg::Call(h, _, _) if heads.contains(&h.as_str())))
    }
    fn has_flag(&self, s: &str) -> bool {
        self.args().iter().any(|a| a.is_flag(s))
    }
}

#[derive(Clone, Debug)]
struct Field {
    attrs: Vec<Attr>,
    name: Option<String>,
    ty: String,
    /// value expression of the (instantiated) field type, for the E2 probes
    val: String,
}

#[derive(Clone, Copy, Debug, PartialEq, Eq)]
enum Shape {
    Unit,
    Tuple,
    Named,
}

#[derive(Clone, Debug)]
struct Variant {
    attrs: Vec<Attr>,
    name: String,
    snake: String,
    shape: Shape,
    fields: Vec<Field>,
    discr: Option<String>,
}

#[derive(Clone, Debug)]
enum Body {
    Struct(Shape, Vec<Field>),
    Enum(Vec<Variant>),
    Union(Vec<Field>),
}

#[derive(Clone, Debug)]
struct Item {
    attrs: Vec<Attr>,
    name: String,
    /// generic parameter declaration, "" or "<T>"
    generics: String,
    body: Body,
}

#[derive(Clone, Copy, Debug, PartialEq, Eq)]
enum Loc {
    Container,
    Variant(usize),
    /// field of a struct / union
    Field(usize),
    /// field of a variant
    VField(usize, usize),
}

fn render_attrs(a: &[Attr], sep: &str) -> String {
    a.iter().map(|x| format!("{}{sep}", x.render())).collect()
}

fn render_fields(shape: Shape, fields: &[Field]) -> String {
    match shape {
        Shape::Unit => String::new(),
        Shape::Tuple => format!("({})", fields.iter().map(|f| format!("{}{}", render_attrs(&f.attrs, " "), f.ty)).collect::<Vec<_>>().join(", ")),
        Shape::Named => format!(
            " {{ {} }}",
            fields.iter().map(|f| format!("{}{}: {}", render_attrs(&f.attrs, " "), f.name.as_deref().unwrap_or("x"), f.ty)).collect::<Vec<_>>().join(", ")
        ),
    }
}

impl Item {
    fn render(&self) -> String {
        let a = render_attrs(&self.attrs, "\n");
        match &self.body {
            Body::Struct(shape, fields) => {
                let f = render_fields(*shape, fields);
                let semi = if *shape == Shape::Named { "" } else { ";" };
                format!("{a}pub struct {}{}{f}{semi}", self.name, self.generics)
            }
            Body::Enum(vs) => {
                let body = vs
                    .iter()
                    .map(|v| {
                        format!(
                            "{}{}{}{}",
                            render_attrs(&v.attrs, " "),
                            v.name,
                            render_fields(v.shape, &v.fields),
                            v.discr.as_ref().map(|d| format!(" = {d}")).unwrap_or_default()
                        )
                    })
                    .collect::<Vec<_>>()
                    .join(", ");
                format!("{a}pub enum {}{} {{ {body} }}", self.name, self.generics)
            }
            Body::Union(fields) => format!("{a}pub union {}{}{}", self.name, self.generics, render_fields(Shape::Named, fields)),
        }
    }
    fn attrs_at(&mut self, loc: Loc) -> Option<&mut Vec<Attr>> {
        match (loc, &mut self.body) {
            (Loc::Container, _) => Some(&mut self.attrs),
            (Loc::Variant(i), Body::Enum(vs)) => vs.get_mut(i).map(|v| &mut v.attrs),
            (Loc::Field(i), Body::Struct(_, fs)) | (Loc::Field(i), Body::Union(fs)) => fs.get_mut(i).map(|f| &mut f.attrs),
            (Loc::VField(vi, fi), Body::Enum(vs)) => vs.get_mut(vi).and_then(|v| v.fields.get_mut(fi)).map(|f| &mut f.attrs),
            _ => None,
        }
    }
    fn attrs_ref(&self, loc: Loc) -> &[Attr] {
        match (loc, &self.body) {
            (Loc::Container, _) => &self.attrs,
            (Loc::Variant(i), Body::Enum(vs)) => vs.get(i).map(|v| v.attrs.as_slice()).unwrap_or(&[]),
            (Loc::Field(i), Body::Struct(_, fs)) | (Loc::Field(i), Body::Union(fs)) => fs.get(i).map(|f| f.attrs.as_slice()).unwrap_or(&[]),
            (Loc::VField(vi, fi), Body::Enum(vs)) => vs.get(vi).and_then(|v| v.fields.get(fi)).map(|f| f.attrs.as_slice()).unwrap_or(&[]),
            _ => &[],
        }
    }
    /// value expressions: one for a struct / union, one per variant for an enum (`inst`: the type the
    /// generic parameter `T` is instantiated with, "" for non-generic items)
    fn values(&self, inst: &str) -> Vec<String> {
        let me = if inst.is_empty() { self.name.clone() } else { format!("{}::<{inst}>", self.name) };
        let build = |path: &str, shape: Shape, fields: &[Field]| match shape {
            Shape::Unit => path.to_string(),
            Shape::Tuple => format!("{path}({})", fields.iter().map(|f| f.val.clone()).collect::<Vec<_>>().join(", ")),
            Shape::Named => format!("{path} {{ {} }}", fields.iter().map(|f| format!("{}: {}", f.name.as_deref().unwrap_or("x"), f.val)).collect::<Vec<_>>().join(", ")),
        };
        match &self.body {
            Body::Struct(shape, fields) => vec![build(&me, *shape, fields)],
            Body::Enum(vs) => vs.iter().map(|v| build(&format!("{me}::{}", v.name), v.shape, &v.fields)).collect(),
            Body::Union(fields) => vec![format!("{me} {{ {}: {} }}", fields[0].name.as_deref().unwrap_or("a"), fields[0].val)],
        }
    }
}

/// `#[derive(From)] #[from(forward)] enum E { A(i32) }` (also `#[from(<types>)]`): impl/src/from.rs never looks at the
/// attributes of an enum itself, so the attribute is silently ignored (same expansion as without it) although the
/// property wants an argument that is meaningless for the item kind to be rejected. Reported as a candidate genuine
/// defect; the (From, enum, co:item-kind) cell is generated only when this switch is off.
const AVOID_FROM_ENUM_ATTR: bool = false;

fn lit_tok(s: &str) -> String {
    proc_macro2::Literal::string(s).to_string()
}

/// value expression for a type of the generators' vocabulary
fn val_of(ty: &str) -> String {
    let t = ty.trim();
    if t.starts_with('(') && t.ends_with(')') {
        // tuple: split at top-level commas
        let inner = &t[1..t.len() - 1];
        let mut parts = vec![];
        let (mut depth, mut cur) = (0i32, String::new());
        for c in inner.chars() {
            match c {
                '<' | '(' | '[' => depth += 1,
                '>' | ')' | ']' => depth -= 1,
                _ => {}
            }
            if c == ',' && depth == 0 {
                parts.push(cur.trim().to_string());
                cur.clear();
            } else {
                cur.push(c);
            }
        }
        if !cur.trim().is_empty() {
            parts.push(cur.trim().to_string());
        }
        return format!("({})", parts.iter().map(|p| val_of(p)).collect::<Vec<_>>().join(", "));
    }
    match t {
        "i8" | "i16" | "i32" | "i64" | "i128" | "u8" | "u16" | "u32" | "u64" | "usize" | "isize" => format!("12{t}"),
        "f32" | "f64" => format!("1.5{t}"),
        "bool" => "true".into(),
        "char" => "'c'".into(),
        "&'static str" => "\"s\"".into(),
        "String" => "String::from(\"s\")".into(),
        "Box<str>" => "Box::<str>::from(\"s\")".into(),
        "std::path::PathBuf" => "std::path::PathBuf::from(\"s\")".into(),
        "Vec<i32>" => "vec![3i32, 4]".into(),
        "Box<i32>" => "Box::new(5i32)".into(),
        "Box<i64>" => "Box::new(5i64)".into(),
        "&'static i32" => "&P".into(),
        "Inner" => "Inner".into(),
        other => format!("<{other} as Default>::default()"),
    }
}

// ------------------------------------------------------------------------------------------------
// families, positions, kinds, cells

#[derive(Clone, Copy, Debug, PartialEq, Eq)]
enum Fam {
    Display,
    Debug,
    From,
    Into,
    AsRef,
    TryFrom,
    Error,
    Deref,
    Index,
    IntoIter,
    IsVariant,
    Unwrap,
    TryInto,
    Mul,
}

fn fam_of(derive: &str) -> Option<Fam> {
    Some(match derive {
        "Display" | "Binary" | "Octal" | "LowerHex" | "UpperHex" | "LowerExp" | "UpperExp" | "Pointer" => Fam::Display,
        "Debug" => Fam::Debug,
        "From" => Fam::From,
        "Into" => Fam::Into,
        "AsRef" | "AsMut" => Fam::AsRef,
        "TryFrom" => Fam::TryFrom,
        "Error" => Fam::Error,
        "Deref" | "DerefMut" => Fam::Deref,
        "Index" | "IndexMut" => Fam::Index,
        "IntoIterator" => Fam::IntoIter,
        "IsVariant" => Fam::IsVariant,
        "Unwrap" | "TryUnwrap" => Fam::Unwrap,
        "TryInto" => Fam::TryInto,
        "Mul" | "Div" | "Rem" | "Shr" | "Shl" | "MulAssign" | "DivAssign" | "RemAssign" | "ShrAssign" | "ShlAssign" => Fam::Mul,
        _ => return None,
    })
}

/// families whose attributes go through the legacy `State`/`MetaInfo` parser of impl/src/utils.rs
fn is_legacy(f: Fam) -> bool {
    matches!(f, Fam::Error | Fam::Deref | Fam::Index | Fam::IntoIter | Fam::IsVariant | Fam::Unwrap | Fam::TryInto | Fam::Mul)
}

#[derive(Clone, Copy, Debug, PartialEq, Eq, PartialOrd, Ord)]
enum Pos {
    Struct,
    Enum,
    Union,
    Variant,
    Field,
}

impl Pos {
    fn name(self) -> &'static str {
        match self {
            Pos::Struct => "struct",
            Pos::Enum => "enum",
            Pos::Union => "union",
            Pos::Variant => "variant",
            Pos::Field => "field",
        }
    }
}

#[derive(Clone, Copy, Debug, PartialEq, Eq, PartialOrd, Ord)]
enum Kind {
    RwSkip,
    RwBound,
    RwNTypes,
    RwTrail,
    RwPerm,
    /// one `bound(P1, P2)` attribute <-> two attributes `bound(P1)`, `bound(P2)`
    RwNBound,
    CoUnknown,
    CoDupLit,
    CoDupRename,
    CoDupTryFrom,
    CoDupRepr,
    CoKind,
    CoLegacyFmt,
    CoLegacyBound,
    CoLegacyTypes,
    CoContra,
    /// the same field selector (`source` / `backtrace`) on two fields of one struct / variant
    CoDupSel,
}

impl Kind {
    fn name(self) -> &'static str {
        match self {
            Kind::RwSkip => "rw:skip-ignore",
            Kind::RwBound => "rw:bound-bounds",
            Kind::RwNTypes => "rw:n-types",
            Kind::RwTrail => "rw:trailing-comma",
            Kind::RwPerm => "rw:permutation",
            Kind::RwNBound => "rw:n-bounds",
            Kind::CoUnknown => "co:unknown",
            Kind::CoDupLit => "co:dup-literal",
            Kind::CoDupRename => "co:dup-rename_all",
            Kind::CoDupTryFrom => "co:dup-try_from-repr",
            Kind::CoDupRepr => "co:dup-repr",
            Kind::CoKind => "co:item-kind",
            Kind::CoLegacyFmt => "co:legacy-fmt",
            Kind::CoLegacyBound => "co:legacy-bound",
            Kind::CoLegacyTypes => "co:legacy-types",
            Kind::CoContra => "co:contradiction",
            Kind::CoDupSel => "co:dup-selector",
        }
    }
    fn is_rewrite(self) -> bool {
        matches!(self, Kind::RwSkip | Kind::RwBound | Kind::RwNTypes | Kind::RwTrail | Kind::RwPerm | Kind::RwNBound)
    }
}

#[derive(Clone, Copy, Debug)]
struct Cell {
    derive: &'static str,
    attr: &'static str,
    fam: Fam,
    pos: Pos,
    kind: Kind,
}

impl Cell {
    fn label(&self) -> String {
        format!("{}/{}/{}", self.derive, self.pos.name(), self.kind.name())
    }
}

/// The (derive, position, kind) cells. Positions are those the derive's documentation names
/// (DESIGN Appendix A, transcribed from impl/doc/*.md); kinds are those that make sense for the
/// documented grammar at that position (e.g. no `co:unknown` where an identifier reads as a type).
fn cells() -> Vec<Cell> {
    use Kind::*;
    use Pos::*;
    let mut out = vec![];
    for d in Derive::all() {
        let info = d.info();
        let Some(attr) = info.attr else { continue };
        let Some(fam) = fam_of(info.name) else { continue };
        let mut add = |pos: Pos, kinds: &[Kind]| {
            for k in kinds {
                out.push(Cell { derive: info.name, attr, fam, pos, kind: *k });
            }
        };
        match fam {
            // display.md: struct / enum / variant / union carry `"lit", args`, `bound(..)`; `rename_all` (structs, enums, variants)
            Fam::Display => {
                for p in [Struct, Enum, Variant, Union] {
                    add(p, &[RwBound, RwTrail, RwPerm, CoUnknown, CoDupLit, CoLegacyFmt, CoLegacyBound]);
                }
                // fmt/mod.rs `ContainerAttributes`: "multiple `#[<attribute>(bound(...))]` are allowed" (they are merged)
                for p in [Struct, Enum] {
                    add(p, &[RwNBound]);
                }
                if info.name == "Display" {
                    for p in [Struct, Enum, Variant] {
                        add(p, &[CoDupRename]);
                    }
                }
            }
            // debug.md: struct / variant: literal; struct / enum: bound(s); field: skip|ignore, literal
            Fam::Debug => {
                add(Struct, &[RwBound, RwNBound, RwTrail, RwPerm, CoUnknown, CoDupLit, CoLegacyFmt, CoLegacyBound, CoContra]);
                add(Enum, &[RwBound, RwNBound, RwTrail, RwPerm, CoUnknown, CoKind, CoLegacyBound]);
                add(Variant, &[RwTrail, RwPerm, CoUnknown, CoDupLit, CoLegacyFmt, CoContra]);
                add(Field, &[RwSkip, RwTrail, RwPerm, CoUnknown, CoDupLit, CoLegacyFmt, CoContra]);
            }
            // from.md: struct: forward | types; variant: empty | skip|ignore | forward | types
            Fam::From => {
                add(Struct, &[RwNTypes, RwTrail, RwPerm, CoLegacyTypes]);
                add(Variant, &[RwSkip, RwNTypes, RwTrail, RwPerm, CoLegacyTypes, CoContra]);
                // from.md documents the container attribute for structs only: on an enum it is meaningless
                if !AVOID_FROM_ENUM_ATTR {
                    add(Enum, &[CoKind]);
                }
            }
            // into.md: struct: empty | types | owned/ref/ref_mut[(types)]; field: same + skip|ignore; enums unsupported
            Fam::Into => {
                add(Struct, &[RwNTypes, RwTrail, RwPerm, CoLegacyTypes, CoContra]);
                add(Field, &[RwSkip, RwNTypes, RwTrail, RwPerm, CoLegacyTypes, CoContra]);
                add(Enum, &[CoKind]);
            }
            // as_ref.md / as_mut.md: struct (one field): forward | types; field: empty | skip|ignore | forward | types
            Fam::AsRef => {
                add(Struct, &[RwNTypes, RwTrail, RwPerm, CoKind, CoContra]);
                add(Field, &[RwSkip, RwNTypes, RwTrail, RwPerm, CoContra]);
                add(Enum, &[CoKind]);
            }
            // try_from.md: enum: `#[try_from(repr)]` + `#[repr(u/i*)]`
            Fam::TryFrom => {
                add(Enum, &[RwPerm, CoUnknown, CoDupTryFrom, CoDupRepr]);
                add(Struct, &[CoKind]);
            }
            // error.md: field: source, backtrace, not(..), ignore; variant: ignore
            Fam::Error => {
                add(Field, &[RwTrail, RwPerm, CoUnknown, CoContra, CoDupSel]);
                add(Variant, &[RwPerm, CoUnknown, CoKind]);
                add(Struct, &[CoKind]);
            }
            // deref.md / deref_mut.md: struct: forward; field: empty | ignore | forward; enums unsupported
            Fam::Deref => {
                add(Struct, &[RwPerm, CoUnknown]);
                add(Field, &[RwPerm, CoUnknown, CoContra]);
                add(Enum, &[CoKind]);
            }
            // index.md / index_mut.md: field: empty | ignore
            Fam::Index => add(Field, &[RwPerm, CoUnknown]),
            // into_iterator.md: struct / field: owned, ref, ref_mut; field: empty | ignore
            Fam::IntoIter => {
                add(Struct, &[RwTrail, RwPerm, CoUnknown]);
                add(Field, &[RwTrail, RwPerm, CoUnknown, CoContra]);
                add(Enum, &[CoKind]);
            }
            // is_variant.md: variant: ignore
            Fam::IsVariant => add(Variant, &[RwPerm, CoUnknown]),
            // unwrap.md / try_unwrap.md: enum, variant: ref, ref_mut; variant: ignore
            // try_into.md: enum, variant: owned, ref, ref_mut; variant: empty | ignore
            Fam::Unwrap | Fam::TryInto => {
                add(Enum, &[RwTrail, RwPerm, CoUnknown]);
                add(Variant, &[RwTrail, RwPerm, CoUnknown, CoContra]);
                add(Struct, &[CoKind]);
            }
            // mul.md / mul_assign.md: struct: forward
            Fam::Mul => add(Struct, &[RwPerm, CoUnknown]),
        }
    }
    out
}

/// what the generator must provide at the target location so that the kind is applicable
#[derive(Clone, Copy, Debug, PartialEq, Eq)]
enum Need {
    Any,
    /// a `skip` / `ignore` attribute
    Skip,
    /// a `bound(..)` / `bounds(..)` argument
    Bound,
    /// a `bound(..)` / `bounds(..)` argument with two predicates
    Bound2,
    /// Error: the target field carries the selecting `source` and its struct / variant has >= 2 fields
    DupSel,
    /// a type list with >= 2 types
    Types2,
    /// an attribute with a list that may take a trailing comma
    List,
    /// >= 2 attributes (own or foreign)
    TwoAttrs,
    /// a format literal attribute
    Lit,
    /// a `rename_all` attribute
    Rename,
    /// a conversion marker (empty / forward / types) but no skip (base of skip+marker contradictions)
    Marker,
    /// a selecting legacy attribute the contradiction can extend
    Select,
    /// Debug: literal on a field, none on the container / variant
    FieldLit,
    /// TryFrom: a `#[repr(int)]` is present
    Repr,
}

fn need_of(c: &Cell) -> Need {
    match c.kind {
        Kind::RwSkip => Need::Skip,
        Kind::RwBound => Need::Bound,
        Kind::RwNBound => Need::Bound2,
        Kind::CoDupSel => Need::DupSel,
        Kind::RwNTypes => Need::Types2,
        Kind::RwTrail => Need::List,
        Kind::RwPerm => Need::TwoAttrs,
        Kind::CoDupLit => Need::Lit,
        Kind::CoDupRename => Need::Rename,
        Kind::CoDupRepr => Need::Repr,
        Kind::CoContra => match (c.fam, c.pos) {
            (Fam::Debug, Pos::Field) => Need::Skip,
            (Fam::Debug, _) => Need::FieldLit,
            (Fam::AsRef, _) | (Fam::From, _) => Need::Marker,
            (Fam::Into, _) => Need::List,
            _ => Need::Select,
        },
        Kind::CoKind => match c.fam {
            Fam::Unwrap | Fam::TryInto | Fam::IntoIter | Fam::Deref => Need::List,
            _ => Need::Any,
        },
        _ => Need::Any,
    }
}

// ------------------------------------------------------------------------------------------------
// generators of well-formed attributed items (one per family)

struct Gen {
    item: Item,
    loc: Loc,
    /// the item compiles on stable with the real proc-macro (by construction)
    e2: bool,
}

const SNAMES: [&str; 5] = ["S", "Foo", "FooBar", "Wrapper", "MyType"];
const ENAMES: [&str; 4] = ["E", "Kind", "MyEnum", "Choice"];
const VNAMES: [(&str, &str); 6] = [("A", "a"), ("B", "b"), ("Unit", "unit"), ("VariantOne", "variant_one"), ("Named", "named"), ("Pair", "pair")];
const FNAMES: [&str; 6] = ["a", "b", "x", "field", "inner", "value"];

fn foreign_attr(d: &mut Dice) -> Attr {
    match d.pick(3) {
        0 => Attr::raw("allow", "dead_code"),
        1 => Attr { name: "doc".into(), args: None, trailing: false }.with_eq("\"documented\""),
        _ => Attr::raw("allow", "unused, clippy::all"),
    }
}

impl Attr {
    /// `#[name = value]` (rendered through a Raw trick: name holds `name = value`)
    fn with_eq(mut self, v: &str) -> Attr {
        self.name = format!("{} = {v}", self.name);
        self
    }
}

/// inserts `a` at a dice-chosen index
fn insert_at(v: &mut Vec<Attr>, a: Attr, d: &mut Dice) {
    let i = d.pick(v.len() + 1);
    v.insert(i, a);
}

fn mk_field(name: Option<&str>, ty: &str, inst: &str) -> Field {
    Field { attrs: vec![], name: name.map(|s| s.to_string()), ty: ty.to_string(), val: val_of(if ty == "T" { inst } else { ty }) }
}

fn pick_names(d: &mut Dice, n: usize) -> Vec<&'static str> {
    let off = d.pick(FNAMES.len());
    (0..n).map(|i| FNAMES[(off + i) % FNAMES.len()]).collect()
}

fn mk_fields(d: &mut Dice, shape: Shape, tys: &[String], inst: &str) -> Vec<Field> {
    match shape {
        Shape::Unit => vec![],
        Shape::Tuple => tys.iter().map(|t| mk_field(None, t, inst)).collect(),
        Shape::Named => {
            let names = pick_names(d, tys.len());
            tys.iter().zip(names).map(|(t, n)| mk_field(Some(n), t, inst)).collect()
        }
    }
}

fn field_vars(shape: Shape, fields: &[Field]) -> Vec<String> {
    match shape {
        Shape::Unit => vec![],
        Shape::Tuple => (0..fields.len()).map(|i| format!("_{i}")).collect(),
        Shape::Named => fields.iter().map(|f| f.name.clone().unwrap_or_default()).collect(),
    }
}

#[derive(Clone, Copy, PartialEq)]
enum LitStyle {
    /// may reference the given field variables
    Fields,
    /// enum-level wrapping format: contains `{_variant}`, no field references
    Wrapping,
    /// no field references at all (enum default format, unions)
    Plain,
}

/// `"literal", args..` of a fmt attribute. Specs are restricted to what every field type of the
/// generators' pools supports (integers, strings, references to them): display, `?`, width/alignment.
fn gen_lit(d: &mut Dice, vars: &[String], style: LitStyle, int_like: bool) -> Vec<Arg> {
    let texts = ["x", "val: ", " - ", "[", "]", "{{", "}}", "é"];
    let mut lit = String::new();
    let mut args: Vec<Arg> = vec![];
    let mut named: Vec<Arg> = vec![];
    let n = d.range(1, 3);
    let mut have_variant = false;
    for i in 0..n {
        if d.chance(40) {
            lit.push_str(texts[d.pick(texts.len())]);
        }
        let spec = if int_like { ["", ":?", ":>6", ":x", ":+"][d.pick(5)] } else { ["", ":?", ":>6"][d.pick(3)] };
        match style {
            LitStyle::Fields if !vars.is_empty() && d.chance(75) => {
                let v = &vars[d.pick(vars.len())];
                if d.chance(50) {
                    lit.push_str(&format!("{{{v}{spec}}}"));
                } else {
                    lit.push_str(&format!("{{{spec}}}"));
                    args.push(Arg::Expr(v.clone()));
                }
            }
            LitStyle::Wrapping if !have_variant || d.chance(30) => {
                have_variant = true;
                if d.chance(70) {
                    lit.push_str("{_variant}");
                } else {
                    lit.push_str("{}");
                    args.push(Arg::Expr("_variant".into()));
                }
            }
            _ => match d.pick(3) {
                0 => lit.push_str(texts[d.pick(texts.len())]),
                1 => {
                    lit.push_str("{}");
                    args.push(Arg::Expr(["1 + 1", "\"s\"", "7u8"][d.pick(3)].into()));
                }
                _ => {
                    let k = format!("k{i}");
                    lit.push_str(&format!("{{{k}}}"));
                    named.push(Arg::Expr(format!("{k} = {}", ["2", "\"t\""][d.pick(2)])));
                }
            },
        }
    }
    if style == LitStyle::Wrapping && !have_variant {
        lit.push_str("{_variant}");
    }
    let mut out = vec![Arg::Lit(lit_tok(&lit))];
    out.extend(args);
    out.extend(named);
    out
}

fn gen_bound(d: &mut Dice, generic: bool) -> Arg {
    gen_bound_n(d, generic, 0)
}

/// `force` = 0: one or two predicates; otherwise exactly `force` pairwise different predicates
fn gen_bound_n(d: &mut Dice, generic: bool, force: usize) -> Arg {
    let tr = ["Clone", "Copy", "core::fmt::Debug", "PartialEq", "Send", "Copy + Clone"];
    let n = if force > 0 { force } else { d.range(1, 2) };
    let off = d.pick(tr.len());
    let preds: Vec<String> = (0..n)
        .map(|k| {
            let t = if force > 0 { tr[(off + k) % tr.len()] } else { tr[d.pick(tr.len())] };
            if generic {
                format!("T: {t}")
            } else {
                format!("{}: {t}", ["i32", "u8", "&'static str"][d.pick(3)])
            }
        })
        .collect();
    let head = if d.chance(50) { "bounds" } else { "bound" };
    Arg::Call(head.into(), preds, false)
}

const CASINGS: [&str; 8] = ["lowercase", "UPPERCASE", "PascalCase", "camelCase", "snake_case", "SCREAMING_SNAKE_CASE", "kebab-case", "SCREAMING-KEBAB-CASE"];

fn gen_rename(d: &mut Dice) -> Arg {
    Arg::NameValue("rename_all".into(), lit_tok(CASINGS[d.pick(CASINGS.len())]))
}

/// container attributes of a fmt derive: at most one literal, one bound, one rename_all, each its own
/// attribute (display.md: `#[display("...", args...)]`, `#[display(bound(...))]`, `#[display(rename_all = "...")]`)
#[allow(clippy::too_many_arguments)]
fn fmt_attrs(d: &mut Dice, attr: &str, need: Option<Need>, vars: &[String], style: LitStyle, int_like: bool, generic: bool, allow_rename: bool, allow_bound: bool, must_lit: bool, allow_lit: bool) -> Vec<Attr> {
    let mut want_lit = allow_lit && (must_lit || d.chance(45));
    let mut want_bound = allow_bound && d.chance(30);
    let mut want_rename = allow_rename && d.chance(25);
    let mut want_foreign = d.chance(15);
    match need {
        Some(Need::Bound) | Some(Need::Bound2) => want_bound = allow_bound,
        Some(Need::Lit) => want_lit = allow_lit,
        Some(Need::Rename) => want_rename = allow_rename,
        Some(Need::List) => {
            if allow_lit && (!allow_bound || d.chance(60)) {
                want_lit = true
            } else {
                want_bound = allow_bound
            }
        }
        Some(Need::TwoAttrs) => {
            let mut n = want_lit as usize + want_bound as usize + want_rename as usize + want_foreign as usize;
            let mut guard = 0;
            while n < 2 && guard < 8 {
                guard += 1;
                match d.pick(4) {
                    0 if allow_lit && !want_lit => want_lit = true,
                    1 if allow_bound && !want_bound => want_bound = true,
                    2 if allow_rename && !want_rename => want_rename = true,
                    3 if !want_foreign => want_foreign = true,
                    _ => continue,
                }
                n += 1;
            }
            if n < 2 {
                want_foreign = true;
            }
        }
        _ => {}
    }
    let mut out = vec![];
    if want_lit {
        out.push(Attr::with(attr, gen_lit(d, vars, style, int_like)));
    }
    if want_bound {
        let force = if need == Some(Need::Bound2) { 2 } else { 0 };
        insert_at(&mut out, Attr::with(attr, vec![gen_bound_n(d, generic, force)]), d);
        // a second bound attribute on the same item: "multiple `#[<attribute>(bound(...))]` are allowed" (fmt/mod.rs)
        if need != Some(Need::Bound2) && d.chance(20) {
            insert_at(&mut out, Attr::with(attr, vec![gen_bound_n(d, generic, 0)]), d);
        }
    }
    if want_rename {
        insert_at(&mut out, Attr::with(attr, vec![gen_rename(d)]), d);
    }
    if want_foreign {
        insert_at(&mut out, foreign_attr(d), d);
        if need == Some(Need::TwoAttrs) && out.len() < 2 {
            insert_at(&mut out, Attr::raw("allow", "unused"), d);
        }
    }
    out
}

fn pick_shape(d: &mut Dice, unit_ok: bool) -> Shape {
    match d.weighted(&[4, 4, if unit_ok { 2 } else { 0 }]) {
        0 => Shape::Tuple,
        1 => Shape::Named,
        _ => Shape::Unit,
    }
}

/// display.md — Display, Binary, Octal, LowerHex, UpperHex, LowerExp, UpperExp, Pointer
fn gen_display(c: &Cell, pos: Pos, need: Need, d: &mut Dice) -> Option<Gen> {
    let is_display = c.derive == "Display";
    let ptr = c.derive == "Pointer";
    let attr = c.attr;
    let generic = pos != Pos::Union && (matches!(need, Need::Bound | Need::Bound2) && d.chance(70) || d.chance(30));
    let inst = if ptr { "&'static i32" } else { "i32" };
    let base: Vec<&str> = if ptr {
        vec!["&'static i32"]
    } else if is_display {
        vec!["i32", "u8", "&'static str", "i64"]
    } else {
        vec!["i32", "u8", "i64"]
    };
    let int_like = !is_display; // `:x`/`:+` only where every pool type supports them (integers, references to them)
    let fty = |d: &mut Dice| -> String {
        if generic && d.chance(50) {
            "T".into()
        } else {
            base[d.pick(base.len())].into()
        }
    };
    let generics = if generic { "<T>".to_string() } else { String::new() };
    match pos {
        Pos::Struct => {
            let shape = pick_shape(d, true);
            let n = if shape == Shape::Unit { 0 } else { d.range(1, 3) };
            let mut tys: Vec<String> = (0..n).map(|_| fty(d)).collect();
            if generic && !tys.iter().any(|t| t == "T") {
                if tys.is_empty() {
                    return gen_display(c, pos, need, d);
                }
                tys[0] = "T".into();
            }
            let fields = mk_fields(d, shape, &tys, inst);
            let vars = field_vars(shape, &fields);
            let must_lit = n != 1 && !(n == 0 && is_display);
            let attrs = fmt_attrs(d, attr, Some(need), &vars, LitStyle::Fields, int_like, generic, is_display, true, must_lit, true);
            Some(Gen { item: Item { attrs, name: SNAMES[d.pick(SNAMES.len())].into(), generics, body: Body::Struct(shape, fields) }, loc: Loc::Container, e2: true })
        }
        Pos::Union => {
            let n = d.range(1, 2);
            let fields: Vec<Field> = (0..n).map(|i| mk_field(Some(["a", "b"][i]), ["i32", "u32"][i], inst)).collect();
            let attrs = fmt_attrs(d, attr, Some(need), &[], LitStyle::Plain, false, false, false, true, true, true);
            Some(Gen { item: Item { attrs, name: ["U", "MyUnion"][d.pick(2)].into(), generics: String::new(), body: Body::Union(fields) }, loc: Loc::Container, e2: true })
        }
        Pos::Enum | Pos::Variant => {
            let nv = d.range(1, 3);
            let target = d.pick(nv);
            let off = d.pick(VNAMES.len());
            let shared = if pos == Pos::Enum && matches!(need, Need::Lit | Need::List) || d.chance(30) { Some(d.chance(50)) } else { None };
            let mut vs = vec![];
            let mut used_t = false;
            for i in 0..nv {
                let (vn, sn) = VNAMES[(off + i) % VNAMES.len()];
                let shape = pick_shape(d, true);
                let n = if shape == Shape::Unit { 0 } else { d.range(1, 2) };
                let mut tys: Vec<String> = (0..n).map(|_| fty(d)).collect();
                if generic && !used_t && n > 0 && (i + 1 == nv || d.chance(50)) {
                    tys[0] = "T".into();
                }
                used_t |= tys.iter().any(|t| t == "T");
                let fields = mk_fields(d, shape, &tys, inst);
                let vars = field_vars(shape, &fields);
                let must_lit = n >= 2 || (n == 0 && !is_display);
                let nd = if pos == Pos::Variant && i == target { Some(need) } else { None };
                let attrs = fmt_attrs(d, attr, nd, &vars, LitStyle::Fields, int_like, generic, is_display, generic, must_lit, true);
                vs.push(Variant { attrs, name: vn.into(), snake: sn.into(), shape, fields, discr: None });
            }
            if generic && !used_t {
                // an unused type parameter does not compile: give the first variant a `T` field
                let f = mk_field(None, "T", inst);
                vs[0].shape = Shape::Tuple;
                vs[0].fields = vec![f];
                vs[0].attrs.retain(|a| !a.has_lit());
                if pos == Pos::Variant && target == 0 && matches!(need, Need::Lit | Need::List | Need::TwoAttrs) {
                    let vars = vec!["_0".to_string()];
                    vs[0].attrs = fmt_attrs(d, attr, Some(need), &vars, LitStyle::Fields, int_like, generic, is_display, true, false, true);
                }
            }
            let style = match shared {
                Some(true) => LitStyle::Wrapping,
                _ => LitStyle::Plain,
            };
            let nd = if pos == Pos::Enum { Some(need) } else { None };
            let mut attrs = fmt_attrs(d, attr, nd, &[], style, false, generic, is_display, true, false, shared.is_some());
            if shared.is_none() {
                attrs.retain(|a| !a.has_lit());
                if pos == Pos::Enum && need == Need::TwoAttrs && attrs.len() < 2 {
                    attrs.push(foreign_attr(d));
                    attrs.push(Attr::raw("allow", "unused"));
                }
            }
            let loc = if pos == Pos::Enum { Loc::Container } else { Loc::Variant(target) };
            Some(Gen { item: Item { attrs, name: ENAMES[d.pick(ENAMES.len())].into(), generics, body: Body::Enum(vs) }, loc, e2: true })
        }
        Pos::Field => None,
    }
}

/// debug.md — struct / variant: literal; struct / enum: bound(s); field: skip | ignore | literal
fn gen_debug(c: &Cell, pos: Pos, need: Need, d: &mut Dice) -> Option<Gen> {
    let attr = c.attr;
    let generic = matches!(need, Need::Bound | Need::Bound2) && d.chance(70) || d.chance(30);
    let generics = if generic { "<T>".to_string() } else { String::new() };
    let base = ["i32", "String", "u8", "&'static str"];
    let fty = |d: &mut Dice| -> String {
        if generic && d.chance(50) {
            "T".into()
        } else {
            base[d.pick(base.len())].into()
        }
    };
    // attributes of the fields of one struct / variant; `container_lit`: the container carries a literal
    let field_attrs = |d: &mut Dice, fields: &mut Vec<Field>, shape: Shape, container_lit: bool, target: Option<(usize, Need)>| {
        let all_vars = field_vars(shape, fields);
        for (i, f) in fields.iter_mut().enumerate() {
            // a field format only refers to its own field (bounds for *other* generic fields used in a field
            // format are C04's subject)
            let vars = vec![all_vars[i].clone()];
            let nd = target.filter(|(t, _)| *t == i).map(|(_, n)| n);
            let mut a = vec![];
            let choice = match nd {
                Some(Need::Skip) => 1,
                Some(Need::Lit) | Some(Need::List) | Some(Need::FieldLit) => 2,
                Some(Need::TwoAttrs) => 1 + d.pick(2),
                Some(_) => d.pick(3),
                None => d.weighted(&[6, 2, 2]),
            };
            match choice {
                1 => a.push(Attr::with(attr, vec![Arg::flag(if d.chance(50) { "ignore" } else { "skip" })])),
                2 if !container_lit => a.push(Attr::with(attr, gen_lit(d, &vars, LitStyle::Fields, false))),
                2 => a.push(Attr::with(attr, vec![Arg::flag("skip")])),
                _ => {}
            }
            if nd == Some(Need::TwoAttrs) || d.chance(10) {
                insert_at(&mut a, foreign_attr(d), d);
            }
            f.attrs = a;
        }
    };
    match pos {
        Pos::Struct | Pos::Field if pos == Pos::Struct || d.chance(50) => {
            let shape = if pos == Pos::Field { pick_shape(d, false) } else { pick_shape(d, true) };
            let n = if shape == Shape::Unit { 0 } else { d.range(1, 3) };
            let mut tys: Vec<String> = (0..n).map(|_| fty(d)).collect();
            if generic {
                if tys.is_empty() {
                    return gen_debug(c, pos, need, d);
                }
                if !tys.iter().any(|t| t == "T") {
                    tys[0] = "T".into();
                }
            }
            let mut fields = mk_fields(d, shape, &tys, "i32");
            let vars = field_vars(shape, &fields);
            let (cneed, ftarget) = match (pos, need) {
                (Pos::Struct, Need::FieldLit) => {
                    if n == 0 {
                        return gen_debug(c, pos, need, d);
                    }
                    (None, Some((d.pick(n), Need::FieldLit)))
                }
                (Pos::Struct, nd) => (Some(nd), None),
                (_, nd) => (None, Some((d.pick(n.max(1)), nd))),
            };
            let allow_lit = !(pos == Pos::Struct && need == Need::FieldLit) && !(pos == Pos::Field && matches!(need, Need::Lit | Need::List | Need::FieldLit));
            let attrs = fmt_attrs(d, attr, cneed, &vars, LitStyle::Fields, false, generic, false, true, false, allow_lit);
            let clit = attrs.iter().any(|a| a.has_lit());
            field_attrs(d, &mut fields, shape, clit, ftarget);
            let loc = if pos == Pos::Struct { Loc::Container } else { Loc::Field(ftarget.map(|t| t.0).unwrap_or(0)) };
            Some(Gen { item: Item { attrs, name: SNAMES[d.pick(SNAMES.len())].into(), generics, body: Body::Struct(shape, fields) }, loc, e2: true })
        }
        _ => {
            let nv = d.range(1, 3);
            let target = d.pick(nv);
            let off = d.pick(VNAMES.len());
            let mut vs = vec![];
            let mut used_t = false;
            let mut floc = 0;
            for i in 0..nv {
                let (vn, sn) = VNAMES[(off + i) % VNAMES.len()];
                let is_t = i == target;
                let need_fields = is_t && (pos == Pos::Field || need == Need::FieldLit) || generic && !used_t && i + 1 == nv;
                let shape = pick_shape(d, !need_fields);
                let n = if shape == Shape::Unit { 0 } else { d.range(1, 2) };
                let mut tys: Vec<String> = (0..n).map(|_| fty(d)).collect();
                if generic && !used_t && n > 0 && (i + 1 == nv || d.chance(50)) {
                    tys[0] = "T".into();
                }
                used_t |= tys.iter().any(|t| t == "T");
                let mut fields = mk_fields(d, shape, &tys, "i32");
                let vars = field_vars(shape, &fields);
                let (vneed, ftarget) = match (pos, is_t, need) {
                    (Pos::Variant, true, Need::FieldLit) => (None, Some((d.pick(n.max(1)), Need::FieldLit))),
                    (Pos::Variant, true, nd) => (Some(nd), None),
                    (Pos::Field, true, nd) => {
                        floc = d.pick(n.max(1));
                        (None, Some((floc, nd)))
                    }
                    _ => (None, None),
                };
                let allow_lit = !(is_t && (need == Need::FieldLit || pos == Pos::Field && matches!(need, Need::Lit | Need::List)));
                // debug.md names only the literal for variants (bounds go on the struct / enum)
                let attrs = fmt_attrs(d, attr, vneed, &vars, LitStyle::Fields, false, generic, false, false, false, allow_lit);
                let vlit = attrs.iter().any(|a| a.has_lit());
                field_attrs(d, &mut fields, shape, vlit, ftarget);
                vs.push(Variant { attrs, name: vn.into(), snake: sn.into(), shape, fields, discr: None });
            }
            let nd = if pos == Pos::Enum { Some(need) } else { None };
            let attrs = fmt_attrs(d, attr, nd, &[], LitStyle::Plain, false, generic, false, true, false, false);
            let loc = match pos {
                Pos::Enum => Loc::Container,
                Pos::Variant => Loc::Variant(target),
                _ => Loc::VField(target, floc),
            };
            Some(Gen { item: Item { attrs, name: ENAMES[d.pick(ENAMES.len())].into(), generics, body: Body::Enum(vs) }, loc, e2: true })
        }
    }
}

/// field type -> types it can be converted *from* (candidate sets are pairwise disjoint so that the
/// impls generated for different enum variants never overlap)
const FROM_POOL: [(&str, &[&str]); 5] = [
    ("i32", &["i32", "i16", "u16"]),
    ("i64", &["i64", "u32", "i8"]),
    ("String", &["String", "&'static str", "Box<str>", "char"]),
    ("f64", &["f64", "f32", "u8"]),
    ("bool", &["bool"]),
];
/// field type -> types it can be converted *into* (pairwise disjoint)
const INTO_POOL: [(&str, &[&str]); 5] = [
    ("i32", &["i32", "i64", "i128"]),
    ("u8", &["u8", "u16", "u32"]),
    ("String", &["String", "Box<str>", "std::path::PathBuf"]),
    ("f32", &["f32", "f64"]),
    ("bool", &["bool"]),
];

/// `k` distinct conversion types for fields drawn from `pool[idx[..]]`: plain type for one field, tuple otherwise
fn conv_types(d: &mut Dice, pool: &[(&str, &[&str])], idx: &[usize], k: usize) -> Vec<String> {
    let mut out: Vec<String> = vec![];
    let mut guard = 0;
    while out.len() < k && guard < 40 {
        guard += 1;
        let parts: Vec<&str> = idx.iter().map(|i| pool[*i].1[d.pick(pool[*i].1.len())]).collect();
        let t = if parts.len() == 1 { parts[0].to_string() } else { format!("({})", parts.join(", ")) };
        if !out.contains(&t) {
            out.push(t);
        }
    }
    out
}

fn distinct_pools(d: &mut Dice, len: usize, n: usize) -> Vec<usize> {
    // partial Fisher-Yates
    let mut all: Vec<usize> = (0..len).collect();
    let n = n.min(len);
    for i in 0..n {
        let j = i + d.pick(len - i);
        all.swap(i, j);
    }
    all.truncate(n);
    all
}

/// splits type attributes: `tys` over one or two attributes
fn types_attrs(attr: &str, tys: Vec<String>, two: bool) -> Vec<Attr> {
    let args: Vec<Arg> = tys.into_iter().map(Arg::Ty).collect();
    if two && args.len() >= 2 {
        let (a, b) = args.split_at(args.len() / 2);
        vec![Attr::with(attr, a.to_vec()), Attr::with(attr, b.to_vec())]
    } else {
        vec![Attr::with(attr, args)]
    }
}

/// from.md — struct: `forward` | `<types>`; variant: empty | `skip`/`ignore` | `forward` | `<types>`
fn gen_from(c: &Cell, pos: Pos, need: Need, d: &mut Dice) -> Option<Gen> {
    let attr = c.attr;
    // conversion attribute(s) for fields of the given pools
    let conv = |d: &mut Dice, idx: &[usize], need: Need, allow_empty: bool, allow_skip: bool| -> Vec<Attr> {
        let cap: usize = idx.iter().map(|i| FROM_POOL[*i].1.len()).product();
        let form = match need {
            Need::Skip => 3,
            Need::Types2 | Need::List => 2,
            Need::TwoAttrs => {
                if cap >= 2 && d.chance(50) {
                    4
                } else {
                    5
                }
            }
            Need::Marker => [0, 1, 2][d.pick(3)],
            _ => d.pick(4),
        };
        match form {
            0 if allow_empty => vec![Attr::bare(attr)],
            0 | 1 => vec![Attr::with(attr, vec![Arg::flag("forward")])],
            2 => {
                let k = if need == Need::Types2 { d.range(2, 3).min(cap.max(2)) } else { d.range(1, 3).min(cap) };
                types_attrs(attr, conv_types(d, &FROM_POOL, idx, k), false)
            }
            3 if allow_skip => vec![Attr::with(attr, vec![Arg::flag(if d.chance(50) { "ignore" } else { "skip" })])],
            3 => vec![Attr::with(attr, vec![Arg::flag("forward")])],
            4 => {
                let k = d.range(2, 3).min(cap);
                types_attrs(attr, conv_types(d, &FROM_POOL, idx, k), true)
            }
            _ => {
                let mut v = match d.pick(if allow_skip { 3 } else { 2 }) {
                    0 => vec![Attr::with(attr, vec![Arg::flag("forward")])],
                    1 => types_attrs(attr, conv_types(d, &FROM_POOL, idx, 1), false),
                    _ => vec![Attr::with(attr, vec![Arg::flag("skip")])],
                };
                insert_at(&mut v, foreign_attr(d), d);
                v
            }
        }
    };
    match pos {
        Pos::Struct => {
            let n = d.range(1, 2);
            let mut idx: Vec<usize> = (0..n).map(|_| d.pick(FROM_POOL.len())).collect();
            if need == Need::Types2 && idx.iter().all(|i| FROM_POOL[*i].1.len() < 2) {
                idx[0] = 0;
            }
            let shape = pick_shape(d, false);
            let tys: Vec<String> = idx.iter().map(|i| FROM_POOL[*i].0.to_string()).collect();
            let fields = mk_fields(d, shape, &tys, "i32");
            let attrs = conv(d, &idx, need, false, false);
            Some(Gen { item: Item { attrs, name: SNAMES[d.pick(SNAMES.len())].into(), generics: String::new(), body: Body::Struct(shape, fields) }, loc: Loc::Container, e2: true })
        }
        Pos::Variant => {
            let nv = d.range(1, 3);
            let target = d.pick(nv);
            let mut pools = distinct_pools(d, FROM_POOL.len(), nv + 1);
            if need == Need::Types2 && FROM_POOL[pools[target]].1.len() < 2 {
                let j = pools.iter().position(|p| FROM_POOL[*p].1.len() >= 2).unwrap_or(0);
                pools.swap(target, j);
            }
            let off = d.pick(VNAMES.len());
            let two_field = d.chance(25);
            let mut vs = vec![];
            for i in 0..nv {
                let (vn, sn) = VNAMES[(off + i) % VNAMES.len()];
                let idx: Vec<usize> = if i == target && two_field { vec![pools[i], pools[nv]] } else { vec![pools[i]] };
                let shape = pick_shape(d, false);
                let tys: Vec<String> = idx.iter().map(|j| FROM_POOL[*j].0.to_string()).collect();
                let fields = mk_fields(d, shape, &tys, "i32");
                let attrs = if i == target { conv(d, &idx, need, true, true) } else { vec![] };
                vs.push(Variant { attrs, name: vn.into(), snake: sn.into(), shape, fields, discr: None });
            }
            // the other variants: a blanket `forward` impl tolerates no other impl; otherwise empty / skip / types of their own pool
            let target_forward = vs[target].attrs.iter().any(|a| a.has_flag("forward"));
            for i in 0..nv {
                if i == target {
                    continue;
                }
                let idx = [pools[i]];
                vs[i].attrs = match d.pick(4) {
                    0 => vec![],
                    1 => vec![Attr::with(attr, vec![Arg::flag(if d.chance(50) { "skip" } else { "ignore" })])],
                    2 if !target_forward => vec![Attr::bare(attr)],
                    3 if !target_forward => types_attrs(attr, conv_types(d, &FROM_POOL, &idx, 1), false),
                    _ => vec![],
                };
            }
            if d.chance(20) {
                vs.push(Variant { attrs: vec![], name: "Nothing".into(), snake: "nothing".into(), shape: Shape::Unit, fields: vec![], discr: None });
            }
            Some(Gen { item: Item { attrs: vec![], name: ENAMES[d.pick(ENAMES.len())].into(), generics: String::new(), body: Body::Enum(vs) }, loc: Loc::Variant(target), e2: true })
        }
        _ => None,
    }
}

/// into.md — struct: `#[into]` | `#[into(<types>)]` | `#[into(owned(..), ref(..), ref_mut(..))]`; field: same + `skip`/`ignore`
fn gen_into(c: &Cell, pos: Pos, need: Need, d: &mut Dice) -> Option<Gen> {
    let attr = c.attr;
    // arguments of one conversion attribute for the fields `idx` (None = bare `#[into]`)
    let conv_args = |d: &mut Dice, idx: &[usize], types2: bool, nonempty: bool| -> Option<Vec<Arg>> {
        let cap: usize = idx.iter().map(|i| INTO_POOL[*i].1.len()).product();
        let own: Vec<&str> = idx.iter().map(|i| INTO_POOL[*i].0).collect();
        let own_ty = if own.len() == 1 { own[0].to_string() } else { format!("({})", own.join(", ")) };
        let form = if types2 {
            1 + d.pick(2)
        } else if nonempty {
            1 + d.pick(2)
        } else {
            d.pick(3)
        };
        match form {
            0 => None,
            1 => {
                let k = if types2 { 2.min(cap.max(2)) + d.pick(2).min(cap.saturating_sub(2)) } else { d.range(1, 3).min(cap) };
                Some(conv_types(d, &INTO_POOL, idx, k).into_iter().map(Arg::Ty).collect())
            }
            _ => {
                let mut args = vec![];
                let force_owned = types2;
                if force_owned || d.chance(60) {
                    if types2 || d.chance(50) {
                        let k = if types2 { 2.min(cap.max(2)) } else { d.range(1, 2).min(cap) };
                        args.push(Arg::Call("owned".into(), conv_types(d, &INTO_POOL, idx, k), false));
                    } else {
                        args.push(Arg::flag("owned"));
                    }
                }
                for r in ["ref", "ref_mut"] {
                    if d.chance(45) {
                        if d.chance(40) {
                            args.push(Arg::Call(r.into(), vec![own_ty.clone()], false));
                        } else {
                            args.push(Arg::flag(r));
                        }
                    }
                }
                if args.is_empty() {
                    args.push(Arg::flag("ref"));
                }
                Some(args)
            }
        }
    };
    let mk = |args: Option<Vec<Arg>>| Attr { name: attr.to_string(), args, trailing: false };
    let n = if pos == Pos::Field { d.range(2, 3) } else { d.range(1, 3) };
    let mut pools = distinct_pools(d, INTO_POOL.len(), n);
    let shape = pick_shape(d, false);
    let target = d.pick(n);
    if need == Need::Types2 {
        // the type lists need >= 2 candidates
        if pos == Pos::Field && INTO_POOL[pools[target]].1.len() < 2 {
            pools[target] = (0..INTO_POOL.len()).find(|p| !pools.contains(p) && INTO_POOL[*p].1.len() >= 2).unwrap_or(0);
        }
        if pos == Pos::Struct && pools.iter().all(|p| INTO_POOL[*p].1.len() < 2) {
            pools[0] = 0;
        }
    }
    let tys: Vec<String> = pools.iter().map(|i| INTO_POOL[*i].0.to_string()).collect();
    let mut fields = mk_fields(d, shape, &tys, "i32");
    match pos {
        Pos::Struct => {
            // some non-target fields are skipped
            let mut kept: Vec<usize> = vec![];
            for i in 0..n {
                if n > 1 && i > 0 && d.chance(20) {
                    fields[i].attrs.push(Attr::with(attr, vec![Arg::flag(if d.chance(50) { "skip" } else { "ignore" })]));
                } else {
                    kept.push(pools[i]);
                }
            }
            if need == Need::Types2 && kept.iter().all(|p| INTO_POOL[*p].1.len() < 2) {
                return gen_into(c, pos, need, d);
            }
            let mut attrs = match need {
                Need::TwoAttrs => match d.pick(3) {
                    0 => {
                        let cap: usize = kept.iter().map(|i| INTO_POOL[*i].1.len()).product();
                        if cap >= 2 {
                            types_attrs(attr, conv_types(d, &INTO_POOL, &kept, 2), true)
                        } else {
                            vec![mk(Some(vec![Arg::flag("owned")])), mk(Some(vec![Arg::flag("ref")]))]
                        }
                    }
                    1 => vec![mk(Some(vec![Arg::flag("owned")])), mk(Some(vec![Arg::flag(if d.chance(50) { "ref" } else { "ref_mut" })]))],
                    _ => {
                        let mut v = vec![mk(conv_args(d, &kept, false, false))];
                        insert_at(&mut v, foreign_attr(d), d);
                        v
                    }
                },
                Need::Types2 => vec![mk(conv_args(d, &kept, true, true))],
                Need::List => vec![mk(conv_args(d, &kept, false, true))],
                _ => vec![mk(conv_args(d, &kept, false, false))],
            };
            if d.chance(10) {
                insert_at(&mut attrs, foreign_attr(d), d);
            }
            Some(Gen { item: Item { attrs, name: SNAMES[d.pick(SNAMES.len())].into(), generics: String::new(), body: Body::Struct(shape, fields) }, loc: Loc::Container, e2: true })
        }
        Pos::Field => {
            let idx = [pools[target]];
            let skip = || Attr::with(attr, vec![Arg::flag("skip")]);
            let fa: Vec<Attr> = match need {
                Need::Skip => {
                    let mut v = vec![Attr::with(attr, vec![Arg::flag(if d.chance(50) { "ignore" } else { "skip" })])];
                    if d.chance(40) {
                        // into.md: "Fields, having specific conversions into them, can also be skipped for top-level tuple conversions"
                        insert_at(&mut v, mk(conv_args(d, &idx, false, false)), d);
                    }
                    v
                }
                Need::Types2 => vec![mk(conv_args(d, &idx, true, true))],
                Need::List => vec![mk(conv_args(d, &idx, false, true))],
                Need::TwoAttrs => match d.pick(3) {
                    0 => vec![mk(conv_args(d, &idx, false, false)), skip()],
                    1 => vec![mk(Some(vec![Arg::flag("owned")])), mk(Some(vec![Arg::flag("ref")]))],
                    _ => {
                        let mut v = vec![mk(conv_args(d, &idx, false, false))];
                        insert_at(&mut v, foreign_attr(d), d);
                        v
                    }
                },
                _ => match d.pick(3) {
                    0 => vec![skip()],
                    _ => vec![mk(conv_args(d, &idx, false, false))],
                },
            };
            fields[target].attrs = fa;
            // optional struct-level attribute over all non-skipped fields
            let mut attrs = vec![];
            if d.chance(40) {
                let kept: Vec<usize> = (0..n).filter(|i| !fields[*i].attrs.iter().any(|a| a.has_flag("skip") || a.has_flag("ignore"))).map(|i| pools[i]).collect();
                if !kept.is_empty() {
                    attrs.push(mk(conv_args(d, &kept, false, false)));
                }
            }
            Some(Gen { item: Item { attrs, name: SNAMES[d.pick(SNAMES.len())].into(), generics: String::new(), body: Body::Struct(shape, fields) }, loc: Loc::Field(target), e2: true })
        }
        _ => None,
    }
}

/// field type -> `AsRef` targets; the first three are "rich" (several targets), the rest plain
const ASREF_POOL: [(&str, &[&str]); 6] = [
    ("String", &["str", "[u8]", "String", "std::ffi::OsStr", "std::path::Path"]),
    ("Vec<i32>", &["[i32]", "Vec<i32>"]),
    ("Box<i64>", &["i64", "Box<i64>"]),
    ("i32", &["i32"]),
    ("bool", &["bool"]),
    ("u8", &["u8"]),
];
const ASMUT_POOL: [(&str, &[&str]); 6] = [
    ("String", &["str", "String"]),
    ("Vec<i32>", &["[i32]", "Vec<i32>"]),
    ("Box<i64>", &["i64", "Box<i64>"]),
    ("i32", &["i32"]),
    ("bool", &["bool"]),
    ("u8", &["u8"]),
];

/// as_ref.md / as_mut.md — struct (exactly one field): `forward` | `<types>`; field: empty | `skip`/`ignore` | `forward` | `<types>`
fn gen_asref(c: &Cell, pos: Pos, need: Need, d: &mut Dice) -> Option<Gen> {
    let attr = c.attr;
    let pool: &[(&str, &[&str])] = if c.derive == "AsMut" { &ASMUT_POOL } else { &ASREF_POOL };
    let types = |d: &mut Dice, p: usize, k: usize| -> Vec<String> { conv_types(d, pool, &[p], k.min(pool[p].1.len())) };
    // marker attribute(s) for a field of pool `p`
    let marker = |d: &mut Dice, p: usize, need: Need, allow_empty: bool, allow_forward: bool| -> Vec<Attr> {
        let rich = pool[p].1.len() >= 2;
        let form = match need {
            Need::Types2 | Need::List => 2,
            Need::TwoAttrs => {
                if rich && d.chance(50) {
                    3
                } else {
                    4
                }
            }
            _ => d.pick(3),
        };
        match form {
            0 if allow_empty => vec![Attr::bare(attr)],
            // `forward` needs a field type with `AsRef` impls of its own (the rich pools)
            0 | 1 if allow_forward && rich => vec![Attr::with(attr, vec![Arg::flag("forward")])],
            0 | 1 | 2 => {
                let k = if need == Need::Types2 { d.range(2, 3) } else { d.range(1, 3) };
                types_attrs(attr, types(d, p, k), false)
            }
            3 => {
                let k = d.range(2, 3);
                types_attrs(attr, types(d, p, k), true)
            }
            _ => {
                let mut v = if allow_forward && rich && d.chance(40) { vec![Attr::with(attr, vec![Arg::flag("forward")])] } else { types_attrs(attr, types(d, p, 1), false) };
                insert_at(&mut v, foreign_attr(d), d);
                v
            }
        }
    };
    match pos {
        Pos::Struct => {
            let p = d.pick(3);
            let shape = pick_shape(d, false);
            let fields = mk_fields(d, shape, &[pool[p].0.to_string()], "i32");
            let attrs = marker(d, p, need, false, true);
            Some(Gen { item: Item { attrs, name: SNAMES[d.pick(SNAMES.len())].into(), generics: String::new(), body: Body::Struct(shape, fields) }, loc: Loc::Container, e2: true })
        }
        Pos::Field => {
            let n = d.range(2, 3);
            let mut pools = distinct_pools(d, pool.len(), n);
            let target = d.pick(n);
            if matches!(need, Need::Types2) && pool[pools[target]].1.len() < 2 {
                pools[target] = (0..3).find(|p| !pools.contains(p)).unwrap_or(0);
            }
            let shape = pick_shape(d, false);
            let tys: Vec<String> = pools.iter().map(|i| pool[*i].0.to_string()).collect();
            let mut fields = mk_fields(d, shape, &tys, "i32");
            let skip_mode = match need {
                Need::Skip => true,
                Need::Types2 | Need::List | Need::Marker => false,
                _ => d.chance(35),
            };
            if skip_mode {
                // as_ref.md "Skipping": only skip attributes; impls for the unmarked fields
                let mut v = vec![Attr::with(attr, vec![Arg::flag(if d.chance(50) { "ignore" } else { "skip" })])];
                if need == Need::TwoAttrs {
                    insert_at(&mut v, foreign_attr(d), d);
                }
                fields[target].attrs = v;
                for i in 0..n {
                    if i != target && d.chance(30) {
                        fields[i].attrs = vec![Attr::with(attr, vec![Arg::flag("skip")])];
                    }
                }
            } else {
                let v = marker(d, pools[target], need, true, true);
                let fwd = v.iter().any(|a| a.has_flag("forward"));
                fields[target].attrs = v;
                if !fwd {
                    for i in 0..n {
                        if i != target && d.chance(35) {
                            fields[i].attrs = marker(d, pools[i], Need::Any, true, false);
                        }
                    }
                }
            }
            Some(Gen { item: Item { attrs: vec![], name: SNAMES[d.pick(SNAMES.len())].into(), generics: String::new(), body: Body::Struct(shape, fields) }, loc: Loc::Field(target), e2: true })
        }
        _ => None,
    }
}

const REPRS: [&str; 6] = ["u8", "i16", "u32", "i64", "u16", "i8"];

/// try_from.md — enum: `#[try_from(repr)]`, the type comes from `#[repr(u/i*)]`
fn gen_tryfrom(c: &Cell, _pos: Pos, need: Need, d: &mut Dice) -> Option<Gen> {
    let nv = d.range(1, 4);
    let off = d.pick(VNAMES.len());
    let mut next = 0i64;
    let mut any_discr = false;
    let mut any_fields = false;
    let mut vs = vec![];
    for i in 0..nv {
        let (vn, sn) = VNAMES[(off + i) % VNAMES.len()];
        let (shape, fields) = match d.weighted(&[6, 1, 1, 2]) {
            0 => (Shape::Unit, vec![]),
            1 => (Shape::Tuple, vec![]),
            2 => (Shape::Named, vec![]),
            _ => {
                any_fields = true;
                (Shape::Tuple, vec![mk_field(None, "i32", "i32")])
            }
        };
        let discr = if d.chance(35) {
            next += d.range(0, 3) as i64;
            any_discr = true;
            Some(next.to_string())
        } else {
            None
        };
        next += 1;
        vs.push(Variant { attrs: vec![], name: vn.into(), snake: sn.into(), shape, fields, discr });
    }
    // empty tuple / brace variants and variants with fields need a primitive repr next to explicit discriminants
    let nonunit = vs.iter().any(|v| v.shape != Shape::Unit);
    let mut attrs = vec![Attr::with(c.attr, vec![Arg::flag("repr")])];
    if need == Need::Repr || any_discr && (any_fields || nonunit) || d.chance(50) {
        insert_at(&mut attrs, Attr::with("repr", vec![Arg::flag(REPRS[d.pick(REPRS.len())])]), d);
    }
    if need == Need::TwoAttrs && attrs.len() < 2 || d.chance(15) {
        insert_at(&mut attrs, foreign_attr(d), d);
    }
    // a representation hint that is not an integer type, in an attribute of its own or next to the integer one
    // (try_from.md: "The type can be changed with a `#[repr(u/i*)]` attribute": any other hint must not change it,
    // whatever the order of the attributes)
    if d.chance(35) {
        let align = Arg::call("align", &[["2", "4", "8"][d.pick(3)]]);
        let int_at = attrs.iter().position(|a| a.name == "repr");
        match int_at {
            Some(i) if d.chance(40) => {
                let args = attrs[i].args.as_mut().unwrap();
                let at = d.pick(args.len() + 1);
                args.insert(at, align);
            }
            _ => insert_at(&mut attrs, Attr::with("repr", vec![align]), d),
        }
    }
    Some(Gen { item: Item { attrs, name: ENAMES[d.pick(ENAMES.len())].into(), generics: String::new(), body: Body::Enum(vs) }, loc: Loc::Container, e2: true })
}

fn flag_subset(d: &mut Dice, all: &[&str]) -> Vec<Arg> {
    let mut v: Vec<Arg> = all.iter().filter(|_| d.chance(50)).map(|s| Arg::flag(s)).collect();
    if v.is_empty() {
        v.push(Arg::flag(all[d.pick(all.len())]));
    }
    if v.len() > 1 && d.chance(40) {
        v.rotate_left(1);
    }
    v
}

/// own attribute (+ a foreign one when two attributes are needed)
fn own_plus(d: &mut Dice, own: Option<Attr>, need: Need) -> Vec<Attr> {
    let mut v: Vec<Attr> = own.into_iter().collect();
    if need == Need::TwoAttrs {
        insert_at(&mut v, foreign_attr(d), d);
        if v.len() < 2 {
            insert_at(&mut v, Attr::raw("allow", "unused"), d);
        }
    } else if d.chance(10) {
        insert_at(&mut v, foreign_attr(d), d);
    }
    v
}

/// error.md — field: `source`, `backtrace`, `not(source)`, `not(backtrace)`, `ignore` (several per attribute,
/// cf. `#[error(backtrace, source)]` in the doc example); variant: `ignore`
fn gen_error(c: &Cell, pos: Pos, need: Need, d: &mut Dice, force_struct: bool) -> Option<Gen> {
    let attr = c.attr;
    let generic = d.chance(20);
    let mut e2 = true;
    let mut used_t = false;
    // fields of one struct / variant with consistent attributes; `target`: (field index, need)
    let mut mk = |d: &mut Dice, shape: Shape, n: usize, target: Option<Need>, e2: &mut bool, used_t: &mut bool| -> (Vec<Field>, usize) {
        let tys: Vec<String> = (0..n)
            .map(|i| {
                if generic && !*used_t && i == 0 {
                    *used_t = true;
                    "T".to_string()
                } else {
                    "Inner".to_string()
                }
            })
            .collect();
        let mut fields = mk_fields(d, shape, &tys, "Inner");
        if shape == Shape::Named && d.chance(15) {
            fields[0].name = Some("source".into());
        }
        let t = d.pick(n.max(1));
        // (the base of a duplicated selector: the target field is the explicit source)
        let src = if target == Some(Need::DupSel) {
            Some(t)
        } else if d.chance(50) {
            Some(d.pick(n.max(1)))
        } else {
            None
        };
        let with_bt = d.chance(15);
        for i in 0..n {
            let mut args: Vec<Arg> = vec![];
            if Some(i) == src {
                args.push(Arg::flag("source"));
                if with_bt {
                    // doc example: `#[error(backtrace, source)]`
                    args.insert(d.pick(2), Arg::flag("backtrace"));
                }
            } else {
                match d.pick(6) {
                    0 => args.push(Arg::call("not", &["source"])),
                    1 if !with_bt => args.push(Arg::flag("ignore")),
                    2 => args.push(Arg::call("not", &["backtrace"])),
                    3 => {
                        args.push(Arg::call("not", &["source"]));
                        args.push(Arg::call("not", &["backtrace"]));
                    }
                    _ => {}
                }
            }
            if target.is_some() && i == t && args.is_empty() {
                args.push(match d.pick(if with_bt { 2 } else { 3 }) {
                    0 => Arg::call("not", &["source"]),
                    1 => Arg::call("not", &["backtrace"]),
                    _ => Arg::flag("ignore"),
                });
            }
            if target == Some(Need::Select) && i == t {
                // a single selecting / deselecting argument the contradiction can extend
                args.truncate(1);
            }
            if args.iter().any(|a| a.is_flag("backtrace")) {
                *e2 = false; // `provide()` needs nightly
            }
            let own = if args.is_empty() { None } else { Some(Attr::with(attr, args)) };
            fields[i].attrs = own_plus(d, own, if i == t { target.unwrap_or(Need::Any) } else { Need::Any });
        }
        (fields, t)
    };
    let generics = if generic { "<T>".to_string() } else { String::new() };
    let display = Attr::raw("display", "\"e\"");
    if force_struct || (pos == Pos::Field && d.chance(50)) {
        let shape = pick_shape(d, false);
        let n = if need == Need::DupSel { d.range(2, 3) } else { d.range(1, 3) };
        let (fields, t) = mk(d, shape, n, if pos == Pos::Field { Some(need) } else { None }, &mut e2, &mut used_t);
        let loc = if pos == Pos::Field { Loc::Field(t) } else { Loc::Container };
        return Some(Gen { item: Item { attrs: vec![display], name: SNAMES[d.pick(SNAMES.len())].into(), generics, body: Body::Struct(shape, fields) }, loc, e2 });
    }
    let nv = d.range(1, 3);
    let target = d.pick(nv);
    let off = d.pick(VNAMES.len());
    let mut vs = vec![];
    let mut floc = 0;
    for i in 0..nv {
        let (vn, sn) = VNAMES[(off + i) % VNAMES.len()];
        let must_fields = (pos == Pos::Field && i == target) || (generic && !used_t && i + 1 == nv);
        let shape = pick_shape(d, !must_fields);
        let n = if shape == Shape::Unit {
            0
        } else if need == Need::DupSel && pos == Pos::Field && i == target {
            d.range(2, 3)
        } else {
            d.range(1, 3)
        };
        let (fields, t) = if n == 0 { (vec![], 0) } else { mk(d, shape, n, if pos == Pos::Field && i == target { Some(need) } else { None }, &mut e2, &mut used_t) };
        if i == target {
            floc = t;
        }
        let own = if (pos == Pos::Variant && i == target && need == Need::TwoAttrs) || d.chance(25) { Some(Attr::with(attr, vec![Arg::flag("ignore")])) } else { None };
        let attrs = own_plus(d, own, if pos == Pos::Variant && i == target { need } else { Need::Any });
        vs.push(Variant { attrs, name: vn.into(), snake: sn.into(), shape, fields, discr: None });
    }
    let loc = if pos == Pos::Variant { Loc::Variant(target) } else { Loc::VField(target, floc) };
    Some(Gen { item: Item { attrs: vec![display], name: ENAMES[d.pick(ENAMES.len())].into(), generics, body: Body::Enum(vs) }, loc, e2 })
}

/// adds for every own attribute of the item the same attribute under the companion name
/// (`#[deref(..)]` <-> `#[deref_mut(..)]`, `#[index]` <-> `#[index_mut]`: doc examples of deref_mut.md / index_mut.md)
fn mirror(item: &mut Item, own: &str, other: &str, d: &mut Dice) {
    let dup = |v: &mut Vec<Attr>, d: &mut Dice| {
        let mut i = 0;
        while i < v.len() {
            if v[i].name == own {
                let mut m = v[i].clone();
                m.name = other.to_string();
                let at = if d.chance(50) { i } else { i + 1 };
                v.insert(at, m);
                i += 1;
            }
            i += 1;
        }
    };
    dup(&mut item.attrs, d);
    if let Body::Struct(_, fs) = &mut item.body {
        for f in fs {
            dup(&mut f.attrs, d);
        }
    }
}

/// deref.md, deref_mut.md (struct: `forward`; field: empty | `ignore` | `forward`), index.md, index_mut.md
/// (field: empty | `ignore`), into_iterator.md (struct / field: `owned`, `ref`, `ref_mut`; field: empty | `ignore`)
fn gen_single_field(c: &Cell, pos: Pos, need: Need, d: &mut Dice) -> Option<Gen> {
    let attr = c.attr;
    let fam = c.fam;
    let generic = d.chance(20);
    let (fty, fval): (String, String) = match fam {
        Fam::Deref => (if generic { "Box<T>".into() } else { "Box<i32>".into() }, "Box::new(5i32)".into()),
        _ => (if generic { "Vec<T>".into() } else { "Vec<i32>".into() }, "vec![3i32, 4]".into()),
    };
    let generics = if generic { "<T>".to_string() } else { String::new() };
    let others = ["bool", "u8", "String"];
    // selecting arguments of this family
    let select = |d: &mut Dice, list: bool| -> Option<Vec<Arg>> {
        match fam {
            Fam::Deref => {
                if list || d.chance(50) {
                    Some(vec![Arg::flag("forward")])
                } else {
                    None
                }
            }
            Fam::IntoIter => {
                if list || d.chance(60) {
                    Some(flag_subset(d, &["owned", "ref", "ref_mut"]))
                } else {
                    None
                }
            }
            _ => None,
        }
    };
    let mk_attr = |args: Option<Vec<Arg>>| Attr { name: attr.to_string(), args, trailing: false };
    let mut item;
    let loc;
    match pos {
        Pos::Struct => {
            // struct-level selector: one field (deref.md / into_iterator.md show the struct-level form on newtypes only;
            // with more fields any struct-level attribute enables every field)
            let n = 1;
            let shape = pick_shape(d, false);
            let main = d.pick(n);
            let tys: Vec<String> = (0..n).map(|i| if i == main { fty.clone() } else { others[d.pick(others.len())].to_string() }).collect();
            let mut fields = mk_fields(d, shape, &tys, "i32");
            fields[main].val = fval.clone();
            if n > 1 {
                fields[main].attrs = vec![mk_attr(None)];
            }
            let list = matches!(need, Need::List | Need::TwoAttrs | Need::Select) || d.chance(60);
            let own = select(d, list).map(|a| mk_attr(Some(a)));
            let attrs = own_plus(d, own, need);
            item = Item { attrs, name: SNAMES[d.pick(SNAMES.len())].into(), generics, body: Body::Struct(shape, fields) };
            loc = Loc::Container;
        }
        _ => {
            let n = d.range(1, 3);
            let shape = pick_shape(d, false);
            let main = d.pick(n);
            let tys: Vec<String> = (0..n).map(|i| if i == main { fty.clone() } else { others[d.pick(others.len())].to_string() }).collect();
            let mut fields = mk_fields(d, shape, &tys, "i32");
            fields[main].val = fval.clone();
            let ignore_mode = n >= 2 && match need {
                Need::List => false,
                Need::Select => d.chance(50),
                _ => d.chance(35),
            };
            let t;
            if ignore_mode {
                // every other field is ignored; the target is one of them
                let cands: Vec<usize> = (0..n).filter(|i| *i != main).collect();
                t = cands[d.pick(cands.len())];
                for i in cands {
                    fields[i].attrs = own_plus(d, Some(mk_attr(Some(vec![Arg::flag("ignore")]))), if i == t { need } else { Need::Any });
                }
            } else {
                t = main;
                let list = matches!(need, Need::List | Need::Select) || (need == Need::TwoAttrs && fam != Fam::Index && d.chance(50));
                let own = match select(d, list) {
                    // the base of a contradiction selects with exactly one argument (see `contradict`)
                    Some(mut a) => {
                        if need == Need::Select {
                            a.truncate(1);
                        }
                        Some(mk_attr(Some(a)))
                    }
                    None if n > 1 || need != Need::Any || d.chance(60) => Some(mk_attr(None)),
                    None => None,
                };
                fields[t].attrs = own_plus(d, own, need);
            }
            item = Item { attrs: vec![], name: SNAMES[d.pick(SNAMES.len())].into(), generics, body: Body::Struct(shape, fields) };
            loc = Loc::Field(t);
        }
    }
    match c.derive {
        "DerefMut" => mirror(&mut item, "deref_mut", "deref", d),
        "IndexMut" => mirror(&mut item, "index_mut", "index", d),
        "Deref" if d.chance(40) => mirror(&mut item, "deref", "deref_mut", d),
        "Index" if d.chance(40) => mirror(&mut item, "index", "index_mut", d),
        _ => {}
    }
    Some(Gen { item, loc, e2: true })
}

/// is_variant.md (variant: `ignore`), unwrap.md / try_unwrap.md (enum, variant: `ref`, `ref_mut`; variant: `ignore`),
/// try_into.md (enum, variant: `owned`, `ref`, `ref_mut`; variant: empty | `ignore`)
fn gen_variant_fam(c: &Cell, pos: Pos, need: Need, d: &mut Dice) -> Option<Gen> {
    let attr = c.attr;
    let fam = c.fam;
    let flags: &[&str] = match fam {
        Fam::Unwrap => &["ref", "ref_mut"],
        Fam::TryInto => &["owned", "ref", "ref_mut"],
        _ => &[],
    };
    let mk_attr = |args: Option<Vec<Arg>>| Attr { name: attr.to_string(), args, trailing: false };
    let nv = d.range(1, 4);
    let target = d.pick(nv);
    let off = d.pick(VNAMES.len());
    let ftys = ["i32", "String", "bool", "u8"];
    let mut vs = vec![];
    for i in 0..nv {
        let (vn, sn) = VNAMES[(off + i) % VNAMES.len()];
        let shape = match fam {
            Fam::Unwrap => [Shape::Tuple, Shape::Unit][d.weighted(&[3, 1])],
            _ => pick_shape(d, true),
        };
        let n = if shape == Shape::Unit { 0 } else { d.range(1, 2) };
        let tys: Vec<String> = (0..n).map(|_| ftys[d.pick(ftys.len())].to_string()).collect();
        let fields = mk_fields(d, shape, &tys, "i32");
        let is_t = pos == Pos::Variant && i == target;
        let nd = if is_t { need } else { Need::Any };
        let own = if is_t {
            match need {
                Need::List => Some(mk_attr(Some(flag_subset(d, flags)))),
                Need::Select => Some(mk_attr(Some(if d.chance(50) { vec![Arg::flag("ignore")] } else { vec![Arg::flag(flags[d.pick(flags.len())])] }))),
                _ => match d.pick(4) {
                    0 if !flags.is_empty() => Some(mk_attr(Some(flag_subset(d, flags)))),
                    1 if fam == Fam::TryInto => Some(mk_attr(None)),
                    2 if need != Need::TwoAttrs => None,
                    _ => Some(mk_attr(Some(vec![Arg::flag("ignore")]))),
                },
            }
        } else if d.chance(20) {
            Some(mk_attr(Some(vec![Arg::flag("ignore")])))
        } else {
            None
        };
        let attrs = own_plus(d, own, nd);
        vs.push(Variant { attrs, name: vn.into(), snake: sn.into(), shape, fields, discr: None });
    }
    let own = if !flags.is_empty() && (pos == Pos::Enum || d.chance(30)) {
        if pos == Pos::Enum && !matches!(need, Need::List | Need::TwoAttrs) && d.chance(25) {
            None
        } else {
            Some(mk_attr(Some(flag_subset(d, flags))))
        }
    } else {
        None
    };
    let attrs = own_plus(d, own, if pos == Pos::Enum { need } else { Need::Any });
    let loc = if pos == Pos::Enum { Loc::Container } else { Loc::Variant(target) };
    Some(Gen { item: Item { attrs, name: ENAMES[d.pick(ENAMES.len())].into(), generics: String::new(), body: Body::Enum(vs) }, loc, e2: true })
}

/// mul.md / mul_assign.md — struct: `forward`
fn gen_mul(c: &Cell, _pos: Pos, need: Need, d: &mut Dice) -> Option<Gen> {
    let shape = pick_shape(d, false);
    let n = d.range(1, 3);
    let tys: Vec<String> = (0..n).map(|_| "i32".to_string()).collect();
    let fields = mk_fields(d, shape, &tys, "i32");
    let own = if need == Need::TwoAttrs || d.chance(60) { Some(Attr::with(c.attr, vec![Arg::flag("forward")])) } else { None };
    let attrs = own_plus(d, own, need);
    Some(Gen { item: Item { attrs, name: SNAMES[d.pick(SNAMES.len())].into(), generics: String::new(), body: Body::Struct(shape, fields) }, loc: Loc::Container, e2: true })
}

fn gen_item(c: &Cell, pos: Pos, need: Need, d: &mut Dice) -> Option<Gen> {
    match c.fam {
        Fam::Display => gen_display(c, pos, need, d),
        Fam::Debug => gen_debug(c, pos, need, d),
        Fam::From => gen_from(c, pos, need, d),
        Fam::Into => gen_into(c, pos, need, d),
        Fam::AsRef => gen_asref(c, pos, need, d),
        Fam::TryFrom => gen_tryfrom(c, pos, need, d),
        Fam::Error => gen_error(c, pos, need, d, false),
        Fam::Deref | Fam::Index | Fam::IntoIter => gen_single_field(c, pos, need, d),
        Fam::IsVariant | Fam::Unwrap | Fam::TryInto => gen_variant_fam(c, pos, need, d),
        Fam::Mul => gen_mul(c, pos, need, d),
    }
}

// ------------------------------------------------------------------------------------------------
// rewrites and corruptions

struct Applied {
    item: Item,
    /// sub-form of the kind (label)
    detail: String,
    /// legacy-parser contradictions inside one attribute: the item the recorded defect predicts the
    /// expansion to be equal to (`ignore` wins / the later of `X`, `not(X)` wins)
    predicted: Option<(Item, &'static str)>,
}

const NONSENSE: [&str; 8] = ["foo", "skipp", "forwards", "bounded", "renameall", "sorce", "unknown_arg", "typs"];
const VOCAB: [&str; 13] = ["skip", "ignore", "forward", "owned", "ref", "ref_mut", "source", "backtrace", "bound", "bounds", "rename_all", "repr", "types"];

/// every word the family's attribute language knows at any position (documentation and code)
fn known_words(f: Fam) -> &'static [&'static str] {
    match f {
        Fam::Display => &["bound", "bounds", "rename_all"],
        Fam::Debug => &["bound", "bounds", "skip", "ignore"],
        Fam::TryFrom => &["repr"],
        Fam::Error => &["ignore", "source", "backtrace"],
        Fam::Deref => &["ignore", "forward"],
        Fam::Index | Fam::IsVariant => &["ignore"],
        Fam::IntoIter | Fam::Unwrap | Fam::TryInto => &["ignore", "owned", "ref", "ref_mut"],
        Fam::Mul => &["forward"],
        Fam::From | Fam::Into | Fam::AsRef => &[],
    }
}

fn unknown_word(f: Fam, d: &mut Dice) -> String {
    if d.chance(50) {
        NONSENSE[d.pick(NONSENSE.len())].to_string()
    } else {
        let cands: Vec<&str> = VOCAB.iter().copied().filter(|w| !known_words(f).contains(w)).collect();
        cands[d.pick(cands.len())].to_string()
    }
}

/// the integer type named by a `#[repr(..)]` attribute, if any
fn int_repr_of(a: &Attr) -> Option<String> {
    a.args().iter().find_map(|x| match x {
        Arg::Flag(f) if REPRS.contains(&f.as_str()) => Some(f.clone()),
        _ => None,
    })
}

fn own_indices(attrs: &[Attr], name: &str) -> Vec<usize> {
    attrs.iter().enumerate().filter(|(_, a)| a.name == name).map(|(i, _)| i).collect()
}

fn single_flag(a: &Attr) -> Option<&str> {
    match a.args() {
        [Arg::Flag(s)] => Some(s.as_str()),
        _ => None,
    }
}

/// the selector that contradicts `x` on the same item (`X` <-> `not(X)`, `ignore` <-> a positive selector)
fn contradict(f: Fam, x: &Arg, d: &mut Dice) -> Option<Arg> {
    let selectors: &[&str] = match f {
        Fam::Error => &["source", "backtrace"],
        Fam::Deref => &["forward"],
        Fam::IntoIter | Fam::TryInto => &["owned", "ref", "ref_mut"],
        Fam::Unwrap => &["ref", "ref_mut"],
        _ => return None,
    };
    Some(match x {
        Arg::Flag(s) if s == "ignore" => Arg::flag(selectors[d.pick(selectors.len())]),
        Arg::Flag(s) if f == Fam::Error && d.chance(60) => Arg::call("not", &[s.as_str()]),
        Arg::Flag(_) => Arg::flag("ignore"),
        Arg::Call(h, inner, _) if h == "not" && inner.len() == 1 => Arg::flag(&inner[0]),
        _ => return None,
    })
}

fn struct_to_enum(item: &Item) -> Option<Item> {
    let Body::Struct(shape, fields) = &item.body else { return None };
    let mut it = item.clone();
    it.body = Body::Enum(vec![Variant { attrs: vec![], name: "A".into(), snake: "a".into(), shape: *shape, fields: fields.clone(), discr: None }]);
    Some(it)
}

fn apply(c: &Cell, g: &Gen, d: &mut Dice) -> Option<Applied> {
    let attr = c.attr;
    let mut item = g.item.clone();
    let loc = g.loc;
    let done = |item: Item, detail: &str| Some(Applied { item, detail: detail.to_string(), predicted: None });
    match c.kind {
        Kind::RwSkip => {
            let v = item.attrs_at(loc)?;
            let i = own_indices(v, attr).into_iter().find(|i| matches!(single_flag(&v[*i]), Some("skip" | "ignore")))?;
            let new = if v[i].has_flag("skip") { "ignore" } else { "skip" };
            v[i].args = Some(vec![Arg::flag(new)]);
            done(item, new)
        }
        Kind::RwBound => {
            let v = item.attrs_at(loc)?;
            for i in own_indices(v, attr) {
                if let Some(args) = &mut v[i].args {
                    for a in args.iter_mut() {
                        if let Arg::Call(h, _, _) = a {
                            if h == "bound" || h == "bounds" {
                                *h = if h == "bound" { "bounds".into() } else { "bound".into() };
                                let det = h.clone();
                                return done(item, &det);
                            }
                        }
                    }
                }
            }
            None
        }
        Kind::RwNBound => {
            let v = item.attrs_at(loc)?;
            for i in own_indices(v, attr) {
                let args = v[i].args().to_vec();
                if let [Arg::Call(h, inner, _)] = args.as_slice() {
                    if (h == "bound" || h == "bounds") && inner.len() >= 2 {
                        let other = if h == "bound" { "bounds" } else { "bound" };
                        let mixed = d.chance(30);
                        let split: Vec<Attr> = inner
                            .iter()
                            .enumerate()
                            .map(|(k, p)| Attr::with(attr, vec![Arg::Call(if mixed && k % 2 == 1 { other.to_string() } else { h.clone() }, vec![p.clone()], false)]))
                            .collect();
                        v.splice(i..=i, split);
                        return done(item, if mixed { "one attribute per predicate, mixed bound/bounds" } else { "one attribute per predicate" });
                    }
                }
            }
            None
        }
        Kind::CoDupSel => {
            let (fields, t) = match (&mut item.body, loc) {
                (Body::Struct(_, fs), Loc::Field(t)) => (fs, t),
                (Body::Enum(vs), Loc::VField(vi, fi)) => {
                    let var = vs.get_mut(vi)?;
                    // the fields of an ignored variant are not looked at at all (error.md: "ignore ... a whole enum variant completely")
                    if is_ignored(&var.attrs, attr) {
                        return None;
                    }
                    (&mut var.fields, fi)
                }
                _ => return None,
            };
            if fields.len() < 2 || t >= fields.len() {
                return None;
            }
            let sels: Vec<&str> = ["source", "backtrace"].into_iter().filter(|s| fields[t].attrs.iter().any(|a| a.name == attr && a.has_flag(s))).collect();
            if sels.is_empty() {
                return None;
            }
            let sel = sels[d.pick(sels.len())];
            let others: Vec<usize> = (0..fields.len()).filter(|i| *i != t).collect();
            let o = others[d.pick(others.len())];
            let fa = &mut fields[o].attrs;
            match own_indices(fa, attr).first() {
                Some(&i) => fa[i].args = Some(vec![Arg::flag(sel)]),
                None => insert_at(fa, Attr::with(attr, vec![Arg::flag(sel)]), d),
            }
            done(item, if sel == "source" { "`source` on two fields" } else { "`backtrace` on two fields" })
        }
        Kind::RwNTypes => {
            let v = item.attrs_at(loc)?;
            for i in own_indices(v, attr) {
                let args = v[i].args().to_vec();
                if args.len() >= 2 && args.iter().all(|a| matches!(a, Arg::Ty(_))) {
                    let split: Vec<Attr> = args.into_iter().map(|a| Attr::with(attr, vec![a])).collect();
                    v.splice(i..=i, split);
                    return done(item, "top-level types");
                }
                // `owned(a, b)` -> `#[x(owned(a))] #[x(owned(b), rest..)]`
                if let Some(j) = args.iter().position(|a| matches!(a, Arg::Call(h, inner, _) if ["owned", "ref", "ref_mut"].contains(&h.as_str()) && inner.len() >= 2)) {
                    let Arg::Call(h, inner, _) = &args[j] else { unreachable!() };
                    let mut split: Vec<Attr> = vec![];
                    for (k, t) in inner.iter().enumerate() {
                        let mut a: Vec<Arg> = if k + 1 == inner.len() { args.clone() } else { vec![args[j].clone()] };
                        let jj = if k + 1 == inner.len() { j } else { 0 };
                        a[jj] = Arg::Call(h.clone(), vec![t.clone()], false);
                        split.push(Attr::with(attr, a));
                    }
                    v.splice(i..=i, split);
                    return done(item, "wrapped types");
                }
            }
            None
        }
        Kind::RwTrail => {
            let v = item.attrs_at(loc)?;
            let typed_flag = |a: &Attr| matches!(single_flag(a), Some("skip" | "ignore" | "forward" | "repr"));
            let mut cands: Vec<(usize, Option<usize>)> = vec![];
            for i in own_indices(v, attr) {
                let a = &v[i];
                let args = a.args();
                if args.is_empty() {
                    continue;
                }
                let top = if is_legacy(c.fam) {
                    args.iter().all(|x| matches!(x, Arg::Flag(_) | Arg::Call(..)))
                } else {
                    !typed_flag(a) && (args.iter().all(|x| matches!(x, Arg::Ty(_))) || a.has_lit() || (c.fam == Fam::Into && args.iter().all(|x| matches!(x, Arg::Flag(_) | Arg::Call(..) | Arg::Ty(_)))))
                };
                if top {
                    cands.push((i, None));
                }
                for (j, x) in args.iter().enumerate() {
                    if let Arg::Call(h, inner, _) = x {
                        if ["bound", "bounds", "owned", "ref", "ref_mut"].contains(&h.as_str()) && !inner.is_empty() {
                            cands.push((i, Some(j)));
                        }
                    }
                }
            }
            if cands.is_empty() {
                return None;
            }
            let (i, j) = cands[d.pick(cands.len())];
            match j {
                None => {
                    v[i].trailing = true;
                    done(item, "top-level list")
                }
                Some(j) => {
                    if let Some(Arg::Call(_, _, tr)) = v[i].args.as_mut().and_then(|a| a.get_mut(j)) {
                        *tr = true;
                    }
                    done(item, "nested list")
                }
            }
        }
        Kind::RwPerm => {
            let v = item.attrs_at(loc)?;
            if v.len() < 2 {
                return None;
            }
            let before = render_attrs(v, " ");
            let k = 1 + d.pick(v.len() - 1);
            v.rotate_left(k);
            if v.len() > 2 && d.chance(50) {
                v.swap(0, 1);
            }
            if render_attrs(v, " ") == before {
                return None;
            }
            let own = own_indices(v, attr).len();
            let det = if own >= 2 { "own attributes" } else { "own and foreign attributes" };
            done(item, det)
        }
        Kind::CoUnknown => {
            let w = unknown_word(c.fam, d);
            let v = item.attrs_at(loc)?;
            let own = own_indices(v, attr);
            match c.fam {
                Fam::Display | Fam::Debug => {
                    let bound_ok = c.fam == Fam::Display || matches!(c.pos, Pos::Struct | Pos::Enum);
                    let lit_at = own.iter().copied().find(|i| v[*i].has_lit());
                    // display.md lists the eight casings `rename_all` knows ("can be placed on structs, enums and variants")
                    let casing_ok = c.derive == "Display" && c.pos != Pos::Union;
                    let form = d.pick(if casing_ok { 5 } else { 4 });
                    if form == 4 {
                        const BAD_CASINGS: [&str; 8] = ["title case", "Title Case", "sentence", "train-case", "dot.case", "snake case", "", "kebab"];
                        let new = Attr::with(attr, vec![Arg::NameValue("rename_all".into(), lit_tok(BAD_CASINGS[d.pick(BAD_CASINGS.len())]))]);
                        match own.iter().copied().find(|i| v[*i].args().iter().any(|a| matches!(a, Arg::NameValue(..)))) {
                            Some(i) => v[i] = new,
                            None => insert_at(v, new, d),
                        }
                        return done(item, "unknown casing value");
                    }
                    let (new, det): (Attr, &str) = match form {
                        0 => (Attr::raw(attr, &w), "sole argument"),
                        1 if bound_ok => (Attr::raw(attr, &format!("{w}(T: Clone)")), "bound-like list"),
                        2 => (Attr::raw(attr, &format!("{w} = \"snake_case\"")), "name-value"),
                        _ => match lit_at {
                            Some(i) => {
                                let mut a = v[i].clone();
                                a.args.as_mut().unwrap().insert(0, Arg::Raw(w.clone()));
                                v[i] = a;
                                return done(item, "before the literal");
                            }
                            None => (Attr::raw(attr, &w), "sole argument"),
                        },
                    };
                    // replace an own non-literal attribute, or add
                    let repl = own.iter().copied().find(|i| !v[*i].has_lit());
                    match repl {
                        Some(i) if d.chance(50) => v[i] = new,
                        _ => insert_at(v, new, d),
                    }
                    done(item, det)
                }
                Fam::TryFrom => {
                    let i = *own.first()?;
                    let (args, det): (Vec<Arg>, &str) = match d.pick(3) {
                        0 => (vec![Arg::Raw(w)], "instead of repr"),
                        1 => (vec![Arg::Raw(w), Arg::flag("repr")], "before repr"),
                        _ => (vec![Arg::flag("repr"), Arg::Raw(w)], "after repr"),
                    };
                    v[i].args = Some(args);
                    done(item, det)
                }
                _ => {
                    // legacy parser families: one own attribute per item at most
                    let unk_not = c.fam == Fam::Error && c.pos == Pos::Field && d.chance(20);
                    let new_arg = if unk_not {
                        Arg::Call("not".into(), vec![w.clone()], false)
                    } else if d.chance(20) {
                        Arg::Call(w.clone(), vec!["x".into()], false)
                    } else {
                        Arg::Raw(w.clone())
                    };
                    // a *known* flag of the attribute written with an argument list of unknown content (`forward(x)`,
                    // `ignore(x)`, `source(x)`): the list is meaningless there and has to be refused as well
                    if let Some(&i) = own.first() {
                        if d.chance(15) {
                            if let Some(Arg::Flag(known)) = v[i].args().iter().find(|a| matches!(a, Arg::Flag(_))).cloned() {
                                let mut args = v[i].args().to_vec();
                                for a in args.iter_mut() {
                                    if matches!(a, Arg::Flag(k) if *k == known) {
                                        *a = Arg::Call(known.clone(), vec![w.clone()], false);
                                        break;
                                    }
                                }
                                v[i].args = Some(args);
                                return done(item, "known flag with an argument list of unknown content");
                            }
                        }
                    }
                    match own.first() {
                        Some(&i) => {
                            let mut args = v[i].args().to_vec();
                            let det = match d.pick(3) {
                                0 => {
                                    args = vec![new_arg];
                                    "sole argument"
                                }
                                1 => {
                                    args.insert(0, new_arg);
                                    "prepended"
                                }
                                _ => {
                                    args.push(new_arg);
                                    "appended"
                                }
                            };
                            v[i].args = Some(args);
                            done(item, det)
                        }
                        None => {
                            insert_at(v, Attr::with(attr, vec![new_arg]), d);
                            done(item, "new attribute")
                        }
                    }
                }
            }
        }
        Kind::CoDupLit => {
            let v = item.attrs_at(loc)?;
            let i = own_indices(v, attr).into_iter().find(|i| v[*i].has_lit())?;
            let (dup, det) = if d.chance(50) { (v[i].clone(), "same literal twice") } else { (Attr::with(attr, vec![Arg::Lit(lit_tok("second"))]), "two different literals") };
            insert_at(v, dup, d);
            done(item, det)
        }
        Kind::CoDupRename => {
            let v = item.attrs_at(loc)?;
            let i = own_indices(v, attr).into_iter().find(|i| v[*i].args().iter().any(|a| matches!(a, Arg::NameValue(..))))?;
            let (dup, det) = if d.chance(50) { (v[i].clone(), "same casing twice") } else { (Attr::with(attr, vec![gen_rename(d)]), "two casings") };
            insert_at(v, dup, d);
            done(item, det)
        }
        Kind::CoDupTryFrom => {
            let v = item.attrs_at(loc)?;
            insert_at(v, Attr::with(attr, vec![Arg::flag("repr")]), d);
            done(item, "try_from(repr) twice")
        }
        Kind::CoDupRepr => {
            let v = item.attrs_at(loc)?;
            let i = own_indices(v, "repr").into_iter().find(|i| int_repr_of(&v[*i]).is_some())?;
            let (dup, det) = if d.chance(40) { (v[i].clone(), "same repr twice") } else { (Attr::with("repr", vec![Arg::flag(REPRS[d.pick(REPRS.len())])]), "two reprs") };
            insert_at(v, dup, d);
            done(item, det)
        }
        Kind::CoKind => match (c.fam, c.pos) {
            (Fam::AsRef, Pos::Struct) => {
                // as_ref.md: struct-level attribute only for "Newtypes and Structs with One Field"
                let Body::Struct(shape, fields) = &mut item.body else { return None };
                if d.chance(70) {
                    let mut f = mk_field(if *shape == Shape::Named { Some("extra") } else { None }, "bool", "i32");
                    f.attrs = vec![];
                    let at = d.pick(fields.len() + 1);
                    fields.insert(at, f);
                    done(item, "struct-level attribute on a multi-field struct")
                } else {
                    *shape = Shape::Unit;
                    fields.clear();
                    done(item, "struct-level attribute on a unit struct")
                }
            }
            (Fam::AsRef | Fam::Into | Fam::Deref | Fam::IntoIter, Pos::Enum) => done(struct_to_enum(&item)?, "attribute on an enum"),
            (Fam::From, Pos::Enum) => {
                // defect model of the recorded finding: the container attribute is dropped without a trace, i.e. the
                // expansion equals that of the same enum without it
                let e = struct_to_enum(&item)?;
                let mut pred = e.clone();
                pred.attrs.retain(|a| a.name != attr);
                Some(Applied { item: e, detail: "struct-level conversion attribute on an enum".to_string(), predicted: Some((pred, "c17-from-container-attribute-on-enum-ignored")) })
            }
            (Fam::TryFrom, Pos::Struct) => {
                item.attrs.retain(|a| a.name != "repr");
                item.body = if d.chance(50) { Body::Struct(Shape::Unit, vec![]) } else { Body::Struct(Shape::Tuple, vec![mk_field(None, "i32", "i32")]) };
                done(item, "try_from(repr) on a struct")
            }
            (Fam::Unwrap | Fam::TryInto, Pos::Struct) => {
                let Body::Enum(vs) = &item.body else { return None };
                let v = &vs[d.pick(vs.len())];
                let mut fields = v.fields.clone();
                for f in fields.iter_mut() {
                    f.attrs.clear();
                }
                item.body = Body::Struct(v.shape, fields);
                done(item, "enum-level attribute on a struct")
            }
            (Fam::Error, Pos::Variant | Pos::Struct) => {
                // error.md: selectors are for fields; a variant / struct only takes `ignore`
                let sel = match d.pick(4) {
                    0 => Arg::flag("source"),
                    1 => Arg::flag("backtrace"),
                    2 => Arg::call("not", &["source"]),
                    _ => Arg::call("not", &["backtrace"]),
                };
                let v = item.attrs_at(loc)?;
                match own_indices(v, attr).first() {
                    Some(&i) => v[i].args = Some(vec![sel]),
                    None => insert_at(v, Attr::with(attr, vec![sel]), d),
                }
                done(item, "field selector on a variant / struct")
            }
            (Fam::Debug, Pos::Enum) => {
                let lit = gen_lit(d, &[], LitStyle::Plain, false);
                insert_at(&mut item.attrs, Attr::with(attr, lit), d);
                done(item, "format literal on an enum")
            }
            _ => None,
        },
        Kind::CoLegacyFmt => {
            let v = item.attrs_at(loc)?;
            let own = own_indices(v, attr);
            match own.iter().copied().find(|i| v[*i].has_lit()) {
                Some(i) => {
                    let mut parts = vec![];
                    for a in v[i].args() {
                        match a {
                            Arg::Lit(l) => parts.push(format!("fmt = {l}")),
                            Arg::Expr(e) => {
                                let simple = e.chars().all(|ch| ch.is_alphanumeric() || ch == '_');
                                parts.push(if simple && d.chance(50) { e.clone() } else { lit_tok(e) });
                            }
                            other => parts.push(other.render()),
                        }
                    }
                    v[i] = Attr::raw(attr, &parts.join(", "));
                    done(item, "existing literal respelled")
                }
                None => {
                    let body = ["fmt = \"legacy\"", "fmt = \"{}\", \"1\"", "fmt = \"{}\", x"][d.pick(3)];
                    insert_at(v, Attr::raw(attr, body), d);
                    done(item, "new attribute")
                }
            }
        }
        Kind::CoLegacyBound => {
            let v = item.attrs_at(loc)?;
            let own = own_indices(v, attr);
            match own.iter().copied().find(|i| v[*i].has_call(&["bound", "bounds"])) {
                Some(i) => {
                    let preds = match &v[i].args()[0] {
                        Arg::Call(_, inner, _) => inner.join(", "),
                        _ => "T: Clone".into(),
                    };
                    v[i] = Attr::raw(attr, &format!("bound = {}", lit_tok(&preds)));
                    done(item, "existing bound respelled")
                }
                None => {
                    let p = if item.generics.is_empty() { "i32: Clone" } else { "T: Clone" };
                    let v = item.attrs_at(loc)?;
                    insert_at(v, Attr::raw(attr, &format!("bound = {}", lit_tok(p))), d);
                    done(item, "new attribute")
                }
            }
        }
        Kind::CoLegacyTypes => {
            let v = item.attrs_at(loc)?;
            let own = own_indices(v, attr);
            let tys = ["i32", "i64", "u8", "String"];
            let t1 = tys[d.pick(tys.len())];
            let t2 = tys[d.pick(tys.len())];
            let list = match d.pick(3) {
                0 => t1.to_string(),
                1 => format!("{t1}, {t2}"),
                _ => lit_tok(t1),
            };
            let (body, det) = if c.fam == Fam::Into {
                match d.pick(4) {
                    0 => (format!("types({list})"), "types(..)"),
                    1 => (format!("owned(types({list}))"), "owned(types(..))"),
                    2 => (format!("ref(types({list}))"), "ref(types(..))"),
                    _ => (format!("owned, ref, types({list})"), "owned, ref, types(..)"),
                }
            } else {
                (format!("types({list})"), "types(..)")
            };
            match own.first() {
                Some(&i) if !(c.fam == Fam::Into && matches!(single_flag(&v[i]), Some("skip" | "ignore"))) => v[i] = Attr::raw(attr, &body),
                _ => insert_at(v, Attr::raw(attr, &body), d),
            }
            done(item, det)
        }
        Kind::CoContra => match c.fam {
            Fam::AsRef => {
                let skip = Attr::with(attr, vec![Arg::flag(if d.chance(50) { "skip" } else { "ignore" })]);
                let Body::Struct(_, fields) = &mut item.body else { return None };
                if loc == Loc::Container {
                    // as/mod.rs: "`#[as_ref(...)]` cannot be placed on both struct and its field"
                    let f = fields.first_mut()?;
                    let (fa, det) = match d.pick(4) {
                        0 => (Attr::bare(attr), "struct-level attribute and bare field attribute"),
                        1 => (Attr::with(attr, vec![Arg::flag("forward")]), "struct-level attribute and field `forward`"),
                        2 => (Attr::with(attr, vec![Arg::Ty(f.ty.clone())]), "struct-level attribute and field type list"),
                        _ => (skip, "struct-level attribute and field skip"),
                    };
                    insert_at(&mut f.attrs, fa, d);
                    return done(item, det);
                }
                let Loc::Field(t) = loc else { return None };
                if d.chance(60) || fields.len() < 2 {
                    insert_at(&mut fields[t].attrs, skip, d);
                    done(item, "skip and marker on the same field")
                } else {
                    // as_ref.md "Skipping": skip mode and marker mode exclude each other within a struct
                    let others: Vec<usize> = (0..fields.len()).filter(|i| *i != t && own_indices(&fields[*i].attrs, attr).is_empty()).collect();
                    let o = *others.get(d.pick(others.len().max(1)))?;
                    fields[o].attrs.push(skip);
                    done(item, "skip on one field, marker on another")
                }
            }
            Fam::From => {
                let v = item.attrs_at(loc)?;
                insert_at(v, Attr::with(attr, vec![Arg::flag(if d.chance(50) { "skip" } else { "ignore" })]), d);
                done(item, "skip and marker on the same variant")
            }
            Fam::Into => {
                // into.rs: "mixing regular types with wrapped into `owned`/`ref`/`ref_mut` is not allowed" (one attribute)
                let v = item.attrs_at(loc)?;
                let kinds = ["owned", "ref", "ref_mut"];
                let is_wrapped = |a: &Arg| matches!(a, Arg::Flag(f) | Arg::Call(f, _, _) if kinds.contains(&f.as_str()));
                let i = own_indices(v, attr).into_iter().find(|i| {
                    let args = v[*i].args();
                    !args.is_empty() && (args.iter().all(|a| matches!(a, Arg::Ty(_))) || args.iter().all(is_wrapped))
                })?;
                let mut args = v[i].args().to_vec();
                let plain = matches!(args[0], Arg::Ty(_));
                let (new, det) = if plain {
                    let k = kinds[d.pick(3)];
                    if d.chance(50) {
                        (Arg::flag(k), "type list and bare reference kind in one attribute")
                    } else {
                        (Arg::Call(k.into(), vec![["i64", "u8", "String"][d.pick(3)].into()], false), "type list and wrapped type in one attribute")
                    }
                } else {
                    (Arg::Ty(["i64", "u8", "String", "(i32, i64)"][d.pick(4)].into()), "reference kinds and a plain type in one attribute")
                };
                let at = d.pick(args.len() + 1);
                args.insert(at, new);
                v[i].args = Some(args);
                done(item, det)
            }
            Fam::Debug if c.pos == Pos::Field => {
                let v = item.attrs_at(loc)?;
                let i = own_indices(v, attr).into_iter().find(|i| matches!(single_flag(&v[*i]), Some("skip" | "ignore")))?;
                if d.chance(60) {
                    insert_at(v, Attr::with(attr, vec![Arg::Lit(lit_tok("shown"))]), d);
                    done(item, "skip and literal on the same field (two attributes)")
                } else {
                    let s = v[i].args()[0].clone();
                    v[i].args = Some(vec![s, Arg::Lit(lit_tok("shown"))]);
                    done(item, "skip and literal on the same field (one attribute)")
                }
            }
            Fam::Debug => {
                let v = item.attrs_at(loc)?;
                insert_at(v, Attr::with(attr, vec![Arg::Lit(lit_tok("whole"))]), d);
                done(item, "container literal and field literal")
            }
            _ => {
                let v = item.attrs_at(loc)?;
                let i = *own_indices(v, attr).first()?;
                let args = v[i].args().to_vec();
                if args.len() != 1 {
                    return None;
                }
                let x = args[0].clone();
                let y = contradict(c.fam, &x, d)?;
                if d.chance(25) {
                    // two attributes
                    let at = if d.chance(50) { i } else { i + 1 };
                    v.insert(at, Attr::with(attr, vec![y]));
                    return done(item, "two attributes");
                }
                let mut order = if d.chance(50) { vec![x.clone(), y.clone()] } else { vec![y.clone(), x.clone()] };
                let has_ignore = order.iter().any(|a| a.is_flag("ignore"));
                // `ignore` next to a negated parameter and a positive one (three parameters, any order): still a contradiction
                if has_ignore && c.fam == Fam::Error && d.chance(40) {
                    let used: Vec<String> = order.iter().filter_map(|a| match a { Arg::Flag(s) if s != "ignore" => Some(s.clone()), _ => None }).collect();
                    if d.chance(50) {
                        // (both selectors, the earlier slot negated)
                        order = vec![Arg::flag("ignore"), Arg::call("not", &["source"]), Arg::flag("backtrace")];
                        let k = d.pick(3);
                        order.rotate_left(k);
                        if d.chance(50) {
                            order.swap(0, 1);
                        }
                    } else if let Some(other) = ["source", "backtrace"].iter().find(|o| !used.iter().any(|u| u == *o)) {
                        let at = d.pick(order.len() + 1);
                        order.insert(at, Arg::call("not", &[other]));
                    }
                }
                let (reduced, model): (Arg, &'static str) = if has_ignore { (Arg::flag("ignore"), "c17-legacy-ignore-with-selector") } else { (order[1].clone(), "c17-legacy-x-and-not-x") };
                v[i].args = Some(order);
                let det = if has_ignore { "ignore + selector in one attribute" } else { "X + not(X) in one attribute" };
                let mut pred = item.clone();
                pred.attrs_at(loc)?[i].args = Some(vec![reduced]);
                Some(Applied { item, detail: det.to_string(), predicted: Some((pred, model)) })
            }
        },
    }
}

// ------------------------------------------------------------------------------------------------
// cases and the in-process oracle

#[derive(Clone, Debug)]
struct E2Src {
    /// module body of the control (base item + probe): must compile, otherwise the generator is at fault
    control: String,
    /// module body of the case proper: both spellings + comparison (rewrite) / the corrupted item (corruption)
    case: String,
}

#[derive(Clone, Debug)]
struct Case {
    cell: Cell,
    base: String,
    variant: String,
    detail: String,
    predicted: Option<(String, &'static str)>,
    e2: Option<E2Src>,
    /// input classes of the case (evidence labels `class:..`, see `CLASS_FLOORS`)
    classes: Vec<&'static str>,
}

/// input classes that a quick run must contain at least this often (otherwise the run is inconclusive)
const CLASS_FLOORS: [(&str, u64); 8] = [
    ("class:two-bound-attributes-on-one-item", 100),
    ("class:bound-split-over-attributes", 100),
    ("class:try_from-non-integer-repr-hint", 100),
    ("class:display-unknown-casing-value", 20),
    ("class:as_ref-struct-and-field-attribute", 30),
    ("class:into-plain-and-wrapped-in-one-attribute", 50),
    ("class:error-selector-on-two-fields", 50),
    ("class:permutation-of-two-own-attributes", 100),
];

fn classes_of(c: &Cell, base: &Item, loc: Loc, detail: &str) -> Vec<&'static str> {
    let mut v = vec![];
    let at = base.attrs_ref(loc);
    let bound_attrs = |a: &[Attr]| a.iter().filter(|x| x.name == c.attr && x.has_call(&["bound", "bounds"])).count();
    let any_two_bounds = bound_attrs(&base.attrs) >= 2
        || match &base.body {
            Body::Enum(vs) => vs.iter().any(|x| bound_attrs(&x.attrs) >= 2),
            _ => false,
        };
    if any_two_bounds {
        v.push("class:two-bound-attributes-on-one-item");
    }
    if c.kind == Kind::RwNBound {
        v.push("class:bound-split-over-attributes");
    }
    if c.fam == Fam::TryFrom && base.attrs.iter().any(|a| a.name == "repr" && a.has_call(&["align"])) {
        v.push("class:try_from-non-integer-repr-hint");
    }
    if detail == "unknown casing value" {
        v.push("class:display-unknown-casing-value");
    }
    if c.fam == Fam::AsRef && c.kind == Kind::CoContra && c.pos == Pos::Struct {
        v.push("class:as_ref-struct-and-field-attribute");
    }
    if c.fam == Fam::Into && c.kind == Kind::CoContra {
        v.push("class:into-plain-and-wrapped-in-one-attribute");
    }
    if c.kind == Kind::CoDupSel {
        v.push("class:error-selector-on-two-fields");
    }
    if c.fam == Fam::From && c.kind == Kind::CoKind && c.pos == Pos::Enum {
        v.push("class:from-container-attribute-on-enum");
    }
    if c.kind == Kind::RwPerm && own_indices(at, c.attr).len() >= 2 {
        v.push("class:permutation-of-two-own-attributes");
    }
    v
}

/// position the *base* item is generated for (differs from the cell's position for `co:item-kind`,
/// whose position names the item kind the attribute is moved to)
fn base_pos(c: &Cell) -> Pos {
    if c.kind != Kind::CoKind {
        return c.pos;
    }
    match (c.fam, c.pos) {
        (Fam::AsRef | Fam::Into | Fam::Deref | Fam::IntoIter | Fam::From, Pos::Enum) => Pos::Struct,
        (Fam::TryFrom | Fam::Unwrap | Fam::TryInto, Pos::Struct) => Pos::Enum,
        _ => c.pos,
    }
}

fn build_case(c: &Cell, d: &mut Dice) -> Option<Case> {
    let need = need_of(c);
    let g = if c.fam == Fam::Error && c.kind == Kind::CoKind && c.pos == Pos::Struct { gen_error(c, Pos::Struct, need, d, true)? } else { gen_item(c, base_pos(c), need, d)? };
    let a = apply(c, &g, d)?;
    let e2 = if g.e2 { Some(render_e2(c, &g.item, &a.item, g.loc)) } else { None };
    Some(Case {
        cell: *c,
        base: g.item.render(),
        variant: a.item.render(),
        predicted: a.predicted.map(|(i, m)| (i.render(), m)),
        e2,
        classes: classes_of(c, &g.item, g.loc, &a.detail),
        detail: a.detail,
    })
}

/// expansion with the top-level items sorted (impl order is not part of the behaviour)
fn norm_ts(ts: &proc_macro2::TokenStream) -> String {
    match syn::parse2::<syn::File>(ts.clone()) {
        Ok(f) => {
            // (the order of the where-predicates of an impl is not behaviour either: two `bound(..)` attributes may be
            // written in any order)
            let one = |i: &syn::Item| -> String {
                if let syn::Item::Impl(im) = i {
                    let mut im = im.clone();
                    if let Some(w) = &mut im.generics.where_clause {
                        let mut ps: Vec<syn::WherePredicate> = w.predicates.iter().cloned().collect();
                        ps.sort_by_key(|p| tok::ts_string(p));
                        w.predicates = ps.into_iter().collect();
                    }
                    return tok::ts_string(&im);
                }
                tok::ts_string(i)
            };
            let mut v: Vec<String> = f.items.iter().map(one).collect();
            v.sort();
            v.join("\n")
        }
        Err(_) => tok::norm(&ts.to_string()),
    }
}

/// removes a comma that is directly followed by another comma or a closing parenthesis
fn collapse_commas(s: &str) -> String {
    let mut cur = s.to_string();
    loop {
        let next = cur.replace(" , ,", " ,").replace(" ,)", ")");
        if next == cur {
            return cur;
        }
        cur = next;
    }
}

#[derive(Debug)]
enum Verdict {
    Pass(&'static str),
    /// the generator's base item is not accepted: not a case of the domain
    GeneratorReject(String),
    Bad { what: String, expected: String, observed: String, sig: Option<String> },
}

fn eval_e1(derive: &str, rewrite: bool, base: &str, variant: &str, predicted: Option<(&str, &str)>) -> Verdict {
    let Some(dv) = Derive::by_name(derive) else { return Verdict::GeneratorReject(format!("unknown derive {derive}")) };
    let parse = |s: &str| syn::parse_str::<syn::DeriveInput>(s).map_err(|e| format!("item does not parse: {e}: {s}"));
    let (b, v) = match (parse(base), parse(variant)) {
        (Ok(b), Ok(v)) => (b, v),
        (Err(e), _) | (_, Err(e)) => return Verdict::GeneratorReject(e),
    };
    let ob = match dm::expand(dv, &b) {
        Outcome::Ok(ts) => ts,
        Outcome::Err(e) => return Verdict::GeneratorReject(format!("base item rejected: {e}")),
        Outcome::Panic(p) => return Verdict::GeneratorReject(format!("base item panics: {}", p.msg)),
    };
    let ov = dm::expand(dv, &v);
    if rewrite {
        return match ov {
            Outcome::Ok(ts) => {
                let (x, y) = (norm_ts(&ob), norm_ts(&ts));
                if x == y {
                    Verdict::Pass("equal")
                } else {
                    // defect model of the recorded finding: the two expansions differ only by an empty argument slot
                    // (`"lit" , ,` / `"lit" ,)`): the comma after the literal is re-emitted although no argument follows
                    let sig = if collapse_commas(&x) == collapse_commas(&y) { Some("c17-fmt-literal-trailing-comma".to_string()) } else { None };
                    Verdict::Bad { what: "synonymous spelling changes the expansion".into(), expected: x, observed: y, sig }
                }
            }
            Outcome::Err(e) => Verdict::Bad { what: "synonymous spelling is rejected".into(), expected: "the same expansion as the base spelling".into(), observed: format!("derive error: {e}"), sig: None },
            Outcome::Panic(p) => Verdict::Bad {
                what: "synonymous spelling makes the derive panic".into(),
                expected: "the same expansion as the base spelling".into(),
                observed: format!("panic at {}:{}: {}", p.file, p.line, p.msg),
                sig: None,
            },
        };
    }
    match ov {
        Outcome::Err(_) => Verdict::Pass("err"),
        Outcome::Panic(p) => {
            if dm::is_deliberate(&p) {
                Verdict::Pass("deliberate_panic")
            } else {
                // "makes the derive fail with a diagnostic": an index / unwrap / unreachable failure is no diagnostic
                // (that it is an internal failure at all is C18's subject; that the user gets no message is this one's)
                Verdict::Bad {
                    what: "corrupted attribute is rejected by an internal panic instead of a diagnostic".into(),
                    expected: "a diagnostic (derive error or deliberate panic with a message)".into(),
                    observed: format!("panic at {}:{}: {}", p.file, p.line, p.msg),
                    sig: None,
                }
            }
        }
        Outcome::Ok(ts) => {
            // defect model of the recorded findings: the expansion is exactly what "the contradiction is
            // resolved silently" predicts
            let mut sig = None;
            if let Some((ptext, model)) = predicted {
                if let Ok(pi) = syn::parse_str::<syn::DeriveInput>(ptext) {
                    if let Outcome::Ok(pts) = dm::expand(dv, &pi) {
                        if norm_ts(&pts) == norm_ts(&ts) {
                            sig = Some(model.to_string());
                        }
                    }
                }
            }
            let same_as_base = norm_ts(&ob) == norm_ts(&ts);
            Verdict::Bad {
                what: "corrupted attribute is accepted".into(),
                expected: "a diagnostic (derive error or deliberate panic)".into(),
                observed: format!("expands Ok{}: {}", if same_as_base { " (same expansion as without the corruption: silently ignored)" } else { "" }, tok::norm(&ts.to_string()).chars().take(600).collect::<String>()),
                sig,
            }
        }
    }
}

// ------------------------------------------------------------------------------------------------
// E2: the same items through the real proc-macro

const PRELUDE: &str = r#"
pub static P: i32 = 7;
#[derive(Debug, Clone)]
pub struct Inner;
impl std::fmt::Display for Inner {
    fn fmt(&self, f: &mut std::fmt::Formatter<'_>) -> std::fmt::Result { f.write_str("inner") }
}
impl std::error::Error for Inner {}
"#;

fn inst_of(c: &Cell, item: &Item) -> &'static str {
    if item.generics.is_empty() {
        return "";
    }
    match c.fam {
        Fam::Display if c.derive == "Pointer" => "&'static i32",
        Fam::Error => "Inner",
        _ => "i32",
    }
}

fn has_attr_named(item: &Item, name: &str) -> bool {
    let any = |v: &[Attr]| v.iter().any(|a| a.name == name);
    any(&item.attrs)
        || match &item.body {
            Body::Struct(_, fs) | Body::Union(fs) => fs.iter().any(|f| any(&f.attrs)),
            Body::Enum(vs) => vs.iter().any(|v| any(&v.attrs) || v.fields.iter().any(|f| any(&f.attrs))),
        }
}

fn derive_line(c: &Cell, item: &Item) -> String {
    let mut v: Vec<String> = vec![];
    match c.fam {
        Fam::From | Fam::Into | Fam::TryFrom | Fam::Mul => v.push("Debug".into()),
        Fam::Error => {
            v.push("Debug".into());
            v.push("derive_more::Display".into());
        }
        _ => {}
    }
    match c.derive {
        "DerefMut" => v.push("derive_more::Deref".into()),
        "IndexMut" => v.push("derive_more::Index".into()),
        "Deref" if has_attr_named(item, "deref_mut") => v.push("derive_more::DerefMut".into()),
        "Index" if has_attr_named(item, "index_mut") => v.push("derive_more::IndexMut".into()),
        _ => {}
    }
    v.push(format!("derive_more::{}", c.derive));
    format!("#[derive({})]", v.join(", "))
}

fn tuple_ty(tys: &[String]) -> String {
    match tys.len() {
        1 => tys[0].clone(),
        _ => format!("({})", tys.join(", ")),
    }
}

/// explicit flags (`owned`, `ref`, `ref_mut`) of the own attributes in `v`
fn explicit_flags(v: &[Attr], attr: &str) -> Vec<String> {
    let mut out = vec![];
    for a in v.iter().filter(|a| a.name == attr) {
        for x in a.args() {
            match x {
                Arg::Flag(s) | Arg::Call(s, _, _) if ["owned", "ref", "ref_mut"].contains(&s.as_str()) && !out.contains(s) => out.push(s.clone()),
                _ => {}
            }
        }
    }
    out
}

fn is_ignored(v: &[Attr], attr: &str) -> bool {
    v.iter().any(|a| a.name == attr && (a.has_flag("ignore") || a.has_flag("skip")))
}

/// Derive-specific probe: the body of `pub fn probe() -> String`. It only uses what the attributes at
/// `loc` (and their documented defaults) promise, and is pasted verbatim next to both spellings.
fn probe(c: &Cell, item: &Item, loc: Loc) -> String {
    let attr = c.attr;
    let inst = inst_of(c, item);
    let vals = item.values(inst);
    let name = &item.name;
    let mut s = String::from("let mut s = String::new();\n");
    let mut line = |l: String| {
        s.push_str("    ");
        s.push_str(&l);
        s.push('\n');
    };
    let at = item.attrs_ref(loc);
    match c.fam {
        Fam::Display => {
            let spec = match c.derive {
                "Display" => "{}",
                "Binary" => "{:b}",
                "Octal" => "{:o}",
                "LowerHex" => "{:x}",
                "UpperHex" => "{:X}",
                "LowerExp" => "{:e}",
                "UpperExp" => "{:E}",
                _ => "{:p}",
            };
            for v in &vals {
                line(format!("s += &format!(\"{spec}|\", {v});"));
            }
        }
        Fam::Debug => {
            for v in &vals {
                line(format!("s += &format!(\"{{:?}}|{{:#?}}|\", {v}, {v});"));
            }
        }
        Fam::From => {
            let (ftys, path): (Vec<String>, String) = match (&item.body, loc) {
                (Body::Struct(_, fs), _) => (fs.iter().map(|f| f.ty.clone()).collect(), name.clone()),
                (Body::Enum(vs), Loc::Variant(i)) => (vs[i].fields.iter().map(|f| f.ty.clone()).collect(), name.clone()),
                _ => (vec![], name.clone()),
            };
            let mut srcs: Vec<String> = vec![];
            for a in at.iter().filter(|a| a.name == attr) {
                match a.args.as_deref() {
                    None => srcs.push(tuple_ty(&ftys)),
                    Some([Arg::Flag(f)]) if f == "forward" => srcs.push(tuple_ty(&ftys)),
                    Some(args) => srcs.extend(args.iter().filter_map(|x| if let Arg::Ty(t) = x { Some(t.clone()) } else { None })),
                }
            }
            for t in srcs {
                line(format!("{{ let v: {path} = ({}).into(); s += &format!(\"{{:?}}|\", v); }}", val_of(&t)));
            }
        }
        Fam::Into => {
            let Body::Struct(_, fs) = &item.body else { return s };
            let own: String = match loc {
                Loc::Field(i) => fs[i].ty.clone(),
                _ => tuple_ty(&fs.iter().filter(|f| !is_ignored(&f.attrs, attr)).map(|f| f.ty.clone()).collect::<Vec<_>>()),
            };
            let v = &vals[0];
            for a in at.iter().filter(|a| a.name == attr) {
                if is_ignored(std::slice::from_ref(a), attr) {
                    continue;
                }
                let mut owned: Vec<String> = vec![];
                let mut refs: Vec<String> = vec![];
                match a.args.as_deref() {
                    None => owned.push(own.clone()),
                    Some(args) => {
                        for x in args {
                            match x {
                                Arg::Ty(t) => owned.push(t.clone()),
                                Arg::Flag(f) if f == "owned" => owned.push(own.clone()),
                                Arg::Call(h, inner, _) if h == "owned" => owned.extend(inner.iter().cloned()),
                                Arg::Flag(f) if f == "ref" => refs.push(own.clone()),
                                Arg::Call(h, inner, _) if h == "ref" => refs.extend(inner.iter().cloned()),
                                _ => {}
                            }
                        }
                    }
                }
                for t in owned {
                    line(format!("{{ let x: {t} = ({v}).into(); s += &format!(\"{{:?}}|\", x); }}"));
                }
                for t in refs.iter().filter(|t| !t.starts_with('(')) {
                    line(format!("{{ let v = {v}; let x: &{t} = (&v).into(); s += &format!(\"{{:?}}|\", x); }}"));
                }
            }
        }
        Fam::AsRef => {
            let Body::Struct(_, fs) = &item.body else { return s };
            let pool: &[(&str, &[&str])] = if c.derive == "AsMut" { &ASMUT_POOL } else { &ASREF_POOL };
            let fty = match loc {
                Loc::Field(i) => fs[i].ty.clone(),
                _ => fs[0].ty.clone(),
            };
            let mut tys: Vec<String> = vec![];
            for a in at.iter().filter(|a| a.name == attr) {
                match a.args.as_deref() {
                    None => tys.push(fty.clone()),
                    Some([Arg::Flag(f)]) if f == "forward" => tys.push(pool.iter().find(|p| p.0 == fty).map(|p| p.1[0].to_string()).unwrap_or(fty.clone())),
                    Some(args) => tys.extend(args.iter().filter_map(|x| if let Arg::Ty(t) = x { Some(t.clone()) } else { None })),
                }
            }
            let v = &vals[0];
            for t in tys {
                if c.derive == "AsMut" {
                    line(format!("{{ let mut v = {v}; let r: &mut {t} = AsMut::<{t}>::as_mut(&mut v); s += &format!(\"{{:?}}|\", r); }}"));
                } else {
                    line(format!("{{ let v = {v}; let r: &{t} = AsRef::<{t}>::as_ref(&v); s += &format!(\"{{:?}}|\", r); }}"));
                }
            }
        }
        Fam::TryFrom => {
            let repr = item.attrs.iter().filter(|a| a.name == "repr").find_map(int_repr_of).unwrap_or("isize".into());
            line(format!("for i in 0..16 {{ s += &format!(\"{{}}|\", {name}::try_from(i as {repr}).is_ok()); }}"));
        }
        Fam::Error => {
            for v in &vals {
                line(format!("s += &format!(\"{{}}|\", std::error::Error::source(&{v}).is_some());"));
            }
        }
        Fam::Deref => {
            let v = &vals[0];
            if c.derive == "DerefMut" {
                line(format!("{{ let mut v = {v}; let r = &mut *v; s += &format!(\"{{:?}}|\", r); }}"));
            } else {
                line(format!("{{ let v = {v}; s += &format!(\"{{:?}}|\", *v); }}"));
            }
        }
        Fam::Index => {
            let v = &vals[0];
            if c.derive == "IndexMut" {
                line(format!("{{ let mut v = {v}; v[0] = 9; s += &format!(\"{{:?}}|\", v[1] + v[0]); }}"));
            } else {
                line(format!("{{ let v = {v}; s += &format!(\"{{:?}}|\", v[1]); }}"));
            }
        }
        Fam::IntoIter => {
            let v = &vals[0];
            let mut flags = explicit_flags(at, attr);
            for f in explicit_flags(&item.attrs, attr) {
                if !flags.contains(&f) {
                    flags.push(f);
                }
            }
            if flags.is_empty() {
                flags.push("owned".into());
            }
            for f in flags {
                match f.as_str() {
                    "owned" => line(format!("{{ let v = {v}; s += &format!(\"{{}}|\", v.into_iter().count()); }}")),
                    "ref" => line(format!("{{ let v = {v}; s += &format!(\"{{}}|\", (&v).into_iter().count()); }}")),
                    _ => line(format!("{{ let mut v = {v}; s += &format!(\"{{}}|\", (&mut v).into_iter().count()); }}")),
                }
            }
        }
        Fam::IsVariant => {
            let Body::Enum(vs) = &item.body else { return s };
            for var in vs.iter().filter(|v| !is_ignored(&v.attrs, attr)) {
                for v in &vals {
                    line(format!("s += &format!(\"{{}}|\", ({v}).is_{}());", var.snake));
                }
            }
        }
        Fam::Unwrap | Fam::TryInto => {
            let Body::Enum(vs) = &item.body else { return s };
            let any_variant_attr = vs.iter().any(|v| v.attrs.iter().any(|a| a.name == attr));
            let enum_flags = explicit_flags(&item.attrs, attr);
            for (i, var) in vs.iter().enumerate() {
                if is_ignored(&var.attrs, attr) {
                    continue;
                }
                let own = explicit_flags(&var.attrs, attr);
                let has_own_attr = var.attrs.iter().any(|a| a.name == attr);
                // only what is explicitly requested for this variant; the all-default case when nothing is written anywhere
                let mut flags: Vec<String> = own.clone();
                if c.fam == Fam::Unwrap {
                    // impl/src/unwrap.rs emits `_ref` / `_mut` only if the *enum-level* attribute requests them too
                    // (`info.ref_ && state.default_info.ref_`): a variant-level `#[unwrap(ref)]` alone has no effect,
                    // contrary to unwrap.md. Probe only what works (reported as a side finding).
                    flags.retain(|f| enum_flags.contains(f));
                }
                if !has_own_attr && !any_variant_attr {
                    flags = enum_flags.clone();
                    if flags.is_empty() {
                        flags.push("owned".into());
                    }
                } else if !has_own_attr {
                    continue;
                }
                let ftys: Vec<String> = var.fields.iter().map(|f| f.ty.clone()).collect();
                let v = &vals[i];
                for f in flags {
                    match (c.fam, c.derive, f.as_str()) {
                        (Fam::Unwrap, "Unwrap", "owned") => line(format!("s += &format!(\"{{}}|\", __catch(|| {{ let _ = ({v}).unwrap_{}(); }}).is_ok());", var.snake)),
                        (Fam::Unwrap, "Unwrap", "ref") => line(format!("s += &format!(\"{{}}|\", __catch(|| {{ let v = {v}; let _ = v.unwrap_{}_ref(); }}).is_ok());", var.snake)),
                        (Fam::Unwrap, "Unwrap", _) => line(format!("s += &format!(\"{{}}|\", __catch(|| {{ let mut v = {v}; let _ = v.unwrap_{}_mut(); }}).is_ok());", var.snake)),
                        (Fam::Unwrap, _, "owned") => line(format!("s += &format!(\"{{}}|\", ({v}).try_unwrap_{}().is_ok());", var.snake)),
                        (Fam::Unwrap, _, "ref") => line(format!("{{ let v = {v}; s += &format!(\"{{}}|\", v.try_unwrap_{}_ref().is_ok()); }}", var.snake)),
                        (Fam::Unwrap, _, _) => line(format!("{{ let mut v = {v}; s += &format!(\"{{}}|\", v.try_unwrap_{}_mut().is_ok()); }}", var.snake)),
                        (_, _, "owned") => line(format!("{{ let r: Result<{}, _> = ({v}).try_into(); s += &format!(\"{{}}|\", r.is_ok()); }}", if ftys.is_empty() { "()".to_string() } else { tuple_ty(&ftys) })),
                        (_, _, "ref") => {
                            let rt: Vec<String> = ftys.iter().map(|t| format!("&{t}")).collect();
                            line(format!("{{ let v = {v}; let r: Result<{}, _> = (&v).try_into(); s += &format!(\"{{}}|\", r.is_ok()); }}", if rt.is_empty() { "()".to_string() } else { tuple_ty(&rt) }))
                        }
                        _ => {}
                    }
                }
            }
        }
        Fam::Mul => {
            let v = &vals[0];
            let forward = item.attrs.iter().any(|a| a.name == attr && a.has_flag("forward"));
            let op = match c.derive.trim_end_matches("Assign") {
                "Mul" => "*",
                "Div" => "/",
                "Rem" => "%",
                "Shr" => ">>",
                _ => "<<",
            };
            let rhs = if forward { v.clone() } else { "2i32".to_string() };
            if c.derive.ends_with("Assign") {
                line(format!("{{ let mut v = {v}; v {op}= {rhs}; s += &format!(\"{{:?}}|\", v); }}"));
            } else {
                line(format!("s += &format!(\"{{:?}}|\", ({v}) {op} {rhs});"));
            }
        }
    }
    s.push_str("    s");
    s
}

fn render_e2(c: &Cell, base: &Item, variant: &Item, loc: Loc) -> E2Src {
    let module = |name: &str, item: &Item, with_probe: bool| -> String {
        let p = if with_probe { format!("    pub fn probe() -> String {{\n    {}\n    }}\n", probe(c, base, loc)) } else { String::new() };
        format!("pub mod {name} {{\n    #[allow(unused_imports)] use super::*;\n    {}\n    {}\n{p}}}\n", derive_line(c, item), item.render().replace('\n', "\n    "))
    };
    let control = format!("{}pub fn run(o: &mut Out) {{ o.put(\"probe\", &a::probe()); }}", module("a", base, true));
    let case = if c.kind.is_rewrite() {
        // the probe is derived from the *base* attributes and pasted next to both spellings
        format!("{}{}pub fn run(o: &mut Out) {{ o.eq(\"both spellings behave the same\", &a::probe(), &b::probe()); }}", module("a", base, true), module("b", variant, true))
    } else {
        module("b", variant, false)
    };
    E2Src { control, case }
}

// ------------------------------------------------------------------------------------------------
// driver

fn case_json(c: &Case) -> Value {
    json!({
        "derive": c.cell.derive, "position": c.cell.pos.name(), "kind": c.cell.kind.name(), "detail": c.detail,
        "rewrite": c.cell.kind.is_rewrite(), "base": c.base, "variant": c.variant,
        "predicted": c.predicted.as_ref().map(|(t, m)| json!([t, m])),
    })
}

fn e2_spec(name: &str) -> ProgSpec {
    ProgSpec { name: name.into(), prelude: PRELUDE.into(), crate_attrs: String::new(), nightly: false, check_only: false, shards: 0 }
}

/// judges one E2 pair (control result, case result); None = fine, Some(Err(())) = generator reject
fn judge_e2(rewrite: bool, ctrl: &super::proggen::CaseResult, res: &super::proggen::CaseResult) -> Option<Result<(String, String, String), ()>> {
    if !ctrl.compiled {
        // a documented helper attribute that rustc does not know is a registration defect of impl/src/lib.rs,
        // not a generator fault
        if let Some(e) = ctrl.errors.iter().find(|e| e.message.contains("cannot find attribute")) {
            return Some(Ok(("documented helper attribute is not registered for the derive".into(), "the well-formed base item compiles".into(), e.rendered.clone())));
        }
        return Some(Err(()));
    }
    if rewrite {
        if !res.compiled {
            return Some(Ok(("the rewritten spelling does not compile with the real proc-macro although the base spelling does".into(), "compiles".into(), res.error_text())));
        }
        if res.no_record {
            return None;
        }
        if let Some((w, e, o)) = res.fails.first() {
            return Some(Ok((format!("run-time probe: {w}"), e.clone(), o.clone())));
        }
        if let Some(p) = &res.panicked {
            return Some(Ok(("probe panicked".into(), "no panic".into(), p.clone())));
        }
        None
    } else {
        if res.compiled {
            return Some(Ok(("corrupted attribute is accepted by the real proc-macro".into(), "a compile error reported by the derive".into(), "compiles".into())));
        }
        // a diagnostic of the derive itself: rustc reports proc-macro errors without an error code
        let by_derive = res.errors.iter().any(|e| e.code.is_none() || e.message.contains("proc-macro derive panicked"));
        if !by_derive {
            return Some(Ok((
                "corrupted attribute passes the derive and is only rejected later by rustc".into(),
                "a diagnostic located in the derive".into(),
                res.error_text(),
            )));
        }
        None
    }
}

// ------------------------------------------------------------------------------------------------
// supplementary, fully enumerated sub-check: a second helper attribute on the same item/variant/field of the derives
// using the legacy meta-style parser ("Only a single attribute is allowed" is what the code itself says; the property:
// "duplicated where only one is allowed ... makes the derive fail with a diagnostic")

/// (derive, base item with `@` where the attributes go, attribute forms documented for that position)
const LEGACY_DUP: [(&str, &str, &[&str]); 19] = [
    ("Deref", "struct S { @ a: Box<i32>, #[deref(ignore)] b: u8 }", &["#[deref]", "#[deref(forward)]"]),
    ("Deref", "@ struct S(Box<i32>);", &["#[deref(forward)]"]),
    ("DerefMut", "struct S { @ a: Box<i32>, #[deref_mut(ignore)] b: u8 }", &["#[deref_mut]", "#[deref_mut(forward)]"]),
    ("Index", "struct S { @ a: Vec<i32>, #[index(ignore)] b: u8 }", &["#[index]"]),
    ("IndexMut", "struct S { @ a: Vec<i32>, #[index_mut(ignore)] b: u8 }", &["#[index_mut]"]),
    ("IntoIterator", "struct S { @ a: Vec<i32>, #[into_iterator(ignore)] b: u8 }", &["#[into_iterator]", "#[into_iterator(owned)]", "#[into_iterator(ref)]", "#[into_iterator(owned, ref, ref_mut)]"]),
    ("IntoIterator", "@ struct S(Vec<i32>);", &["#[into_iterator(owned)]", "#[into_iterator(ref, ref_mut)]"]),
    ("Error", "struct S { @ a: E1, b: u8 }", &["#[error(source)]", "#[error(not(source))]", "#[error(ignore)]", "#[error(not(backtrace))]"]),
    ("Error", "enum E { V { @ a: E1, b: u8 }, W }", &["#[error(source)]", "#[error(not(source))]", "#[error(ignore)]"]),
    ("Error", "enum E { @ V { source: E1 }, W }", &["#[error(ignore)]"]),
    ("Error", "@ struct S { source: E1 }", &["#[error(ignore)]"]),
    ("IsVariant", "enum E { @ A(i32), B }", &["#[is_variant(ignore)]"]),
    ("Unwrap", "enum E { @ A(i32), B }", &["#[unwrap(ignore)]"]),
    ("Unwrap", "@ enum E { A(i32), B }", &["#[unwrap(ref)]", "#[unwrap(owned, ref, ref_mut)]"]),
    ("TryUnwrap", "enum E { @ A(i32), B }", &["#[try_unwrap(ignore)]"]),
    ("TryUnwrap", "@ enum E { A(i32), B }", &["#[try_unwrap(ref_mut)]", "#[try_unwrap(owned, ref)]"]),
    ("TryInto", "enum E { @ A(i32), B(u8) }", &["#[try_into]", "#[try_into(ignore)]"]),
    ("TryInto", "@ enum E { A(i32), B(u8) }", &["#[try_into(ref)]", "#[try_into(owned, ref, ref_mut)]"]),
    ("Mul", "@ struct S(i32);", &["#[mul(forward)]"]),
];

fn legacy_duplicates(rep: &mut Report) {
    for (derive, tmpl, forms) in LEGACY_DUP {
        for a1 in forms.iter() {
            let base = tmpl.replace('@', a1);
            for a2 in forms.iter() {
                let variant = tmpl.replace('@', &format!("{a1} {a2}"));
                rep.evidence.eval(1);
                rep.evidence.label("kind:co:dup-legacy-attribute");
                rep.evidence.nontrivial(&format!("{derive}|{variant}"));
                match eval_e1(derive, false, &base, &variant, None) {
                    Verdict::Pass(_) => {}
                    Verdict::GeneratorReject(e) => rep.infra_errors.push(format!("legacy-duplicate table: base `{base}` for {derive} is not accepted: {e}")),
                    Verdict::Bad { what, expected, observed, sig } => rep.violations.push(Violation {
                        sig,
                        summary: format!("{what} [{derive} / second helper attribute on the same item]: `{variant}`"),
                        case: json!({"derive": derive, "base": base, "variant": variant, "rewrite": false, "predicted": Value::Null}),
                        expected,
                        observed,
                    }),
                }
            }
        }
    }
}

// ------------------------------------------------------------------------------------------------
// supplementary, fully enumerated sub-check: every parameter word the legacy meta-style parser knows, on every position
// of every derive using it. Where the position's allow-list (the `AttrParams { enum_, variant, struct_, field }` of the
// derive; fields of variants are parsed with the `field` list) does not contain the word the derive answers "Attribute
// parameter not supported. Supported attribute parameters are: .." / "Attribute is not allowed here" today: the word is
// meaningless for that position and must stay rejected. Where the documentation names the word for the position it must
// not be answered with that diagnostic.

struct Misplaced {
    derive: &'static str,
    pos: &'static str,
    /// item with `@` where the attribute goes
    template: &'static str,
    /// words the position accepts (transcribed from the allow-lists of impl/src/*.rs)
    allowed: &'static [&'static str],
    /// the subset impl/doc/*.md names for this position
    documented: &'static [&'static str],
}

const PARAM_WORDS: [&str; 11] = ["ignore", "forward", "owned", "ref", "ref_mut", "source", "backtrace", "skip", "types", "repr", "bound"];
const REFS: &[&str] = &["ignore", "owned", "ref", "ref_mut"];

fn misplaced_rows() -> Vec<Misplaced> {
    let mut v = vec![];
    let mut row = |derive: &'static str, pos: &'static str, template: &'static str, allowed: &'static [&'static str], documented: &'static [&'static str]| {
        v.push(Misplaced { derive, pos, template, allowed, documented })
    };
    // try_into.md: enum, variant: owned, ref, ref_mut; variant: ignore
    row("TryInto", "enum", "@ enum E { A(i32), B(u8) }", REFS, &["owned", "ref", "ref_mut"]);
    row("TryInto", "variant", "enum E { @ A(i32), B(u8) }", REFS, REFS);
    row("TryInto", "variant-field", "enum E { A(@ i32), B(u8) }", &["ignore"], &[]);
    // unwrap.md / try_unwrap.md: enum, variant: ref, ref_mut; variant: ignore
    for d in ["Unwrap", "TryUnwrap"] {
        row(d, "enum", "@ enum E { A(i32), B }", REFS, &["ref", "ref_mut"]);
        row(d, "variant", "enum E { @ A(i32), B }", REFS, &["ignore", "ref", "ref_mut"]);
        row(d, "variant-field", "enum E { A(@ i32), B }", &["ignore"], &[]);
    }
    // is_variant.md: variant: ignore
    row("IsVariant", "enum", "@ enum E { A(i32), B }", &["ignore"], &[]);
    row("IsVariant", "variant", "enum E { @ A(i32), B }", &["ignore"], &["ignore"]);
    row("IsVariant", "variant-field", "enum E { A(@ i32), B }", &["ignore"], &[]);
    // into_iterator.md: struct / field: owned, ref, ref_mut; field: ignore
    row("IntoIterator", "struct", "@ struct S(Vec<i32>);", REFS, &["owned", "ref", "ref_mut"]);
    row("IntoIterator", "field", "struct S { @ a: Vec<i32>, #[into_iterator(ignore)] b: u8 }", REFS, &["owned", "ref", "ref_mut"]);
    // deref.md / deref_mut.md: struct: forward; field: ignore, forward
    row("Deref", "struct", "@ struct S(Box<i32>);", &["ignore", "forward"], &["forward"]);
    row("Deref", "field", "struct S { @ a: Box<i32>, #[deref(ignore)] b: u8 }", &["ignore", "forward"], &["forward"]);
    row("DerefMut", "struct", "@ struct S(Box<i32>);", &["ignore", "forward"], &["forward"]);
    row("DerefMut", "field", "struct S { @ a: Box<i32>, #[deref_mut(ignore)] b: u8 }", &["ignore", "forward"], &["forward"]);
    // index.md / index_mut.md: field: ignore
    row("Index", "struct", "@ struct S(Vec<i32>);", &["ignore"], &[]);
    row("Index", "field", "struct S { a: Vec<i32>, @ b: u8 }", &["ignore"], &["ignore"]);
    row("IndexMut", "struct", "@ struct S(Vec<i32>);", &["ignore"], &[]);
    row("IndexMut", "field", "struct S { a: Vec<i32>, @ b: u8 }", &["ignore"], &["ignore"]);
    // mul.md / mul_assign.md: struct: forward (the Mul-like derives also take it on an enum)
    for d in ["Mul", "Div", "Rem", "Shr", "Shl"] {
        row(d, "struct", "@ struct S(i32);", &["forward"], &["forward"]);
        row(d, "field", "struct S(@ i32, i32);", &[], &[]);
        row(d, "enum", "@ enum E { A(i32), B(i32) }", &["forward"], &[]);
        row(d, "variant", "#[ATTR(forward)] enum E { @ A(i32), B(i32) }", &[], &[]);
        row(d, "variant-field", "#[ATTR(forward)] enum E { A(@ i32), B(i32) }", &[], &[]);
    }
    for d in ["MulAssign", "DivAssign", "RemAssign", "ShrAssign", "ShlAssign"] {
        row(d, "struct", "@ struct S(i32);", &["forward"], &["forward"]);
        row(d, "field", "struct S(@ i32, i32);", &[], &[]);
    }
    // error.md: field: source, backtrace, ignore; variant: ignore
    row("Error", "struct", "@ struct S { source: E1 }", &["ignore"], &[]);
    row("Error", "enum", "@ enum E { A { source: E1 }, B }", &["ignore"], &[]);
    row("Error", "variant", "enum E { @ A { source: E1 }, B }", &["ignore"], &["ignore"]);
    row("Error", "field", "struct S { @ a: E1, b: u8 }", &["ignore", "source", "backtrace"], &["ignore", "source", "backtrace"]);
    row("Error", "variant-field", "enum E { A { @ a: E1, b: u8 }, B }", &["ignore", "source", "backtrace"], &["ignore", "source", "backtrace"]);
    v
}

fn misplaced_parameters(rep: &mut Report) {
    const POSITION_DIAGNOSTICS: [&str; 4] = ["Attribute parameter not supported", "Attribute is not allowed here", "Attribute nested parameter not supported", "Attribute doesn't support"];
    for r in misplaced_rows() {
        let Some(dv) = Derive::by_name(r.derive) else { continue };
        let attr = dv.info().attr.unwrap_or("");
        let tmpl = r.template.replace("ATTR", attr);
        // the template itself is sound: it expands without the attribute or with a word allowed at the position
        let base_ok = std::iter::once(String::new()).chain(r.allowed.iter().map(|w| format!("#[{attr}({w})]"))).any(|a| matches!(dm::expand_src(dv, &tmpl.replace('@', &a)), Ok(Outcome::Ok(_))));
        if !base_ok {
            rep.infra_errors.push(format!("misplaced-parameter table: template `{tmpl}` for {} is not accepted with any allowed word", r.derive));
            continue;
        }
        let mut forms: Vec<(String, bool, bool)> = vec![];
        for w in PARAM_WORDS {
            forms.push((w.to_string(), r.allowed.contains(&w), r.documented.contains(&w)));
        }
        for w in ["forward", "source", "backtrace"] {
            // `not(w)`: understood wherever `w` is
            forms.push((format!("not({w})"), r.allowed.contains(&w), false));
        }
        for (form, allowed, documented) in forms {
            let variant = tmpl.replace('@', &format!("#[{attr}({form})]"));
            let base = tmpl.replace('@', "");
            rep.evidence.eval(1);
            rep.evidence.label("kind:co:misplaced-parameter");
            rep.evidence.label(&format!("position:{}", r.pos));
            rep.evidence.nontrivial(&format!("{}|{variant}", r.derive));
            let out = match dm::expand_src(dv, &variant) {
                Ok(o) => o,
                Err(e) => {
                    rep.infra_errors.push(format!("misplaced-parameter table: `{variant}` does not parse: {e}"));
                    continue;
                }
            };
            let mut bad: Option<(String, String, String)> = None;
            if !allowed {
                rep.evidence.label("class:known-parameter-on-a-position-that-does-not-take-it");
                match &out {
                    Outcome::Err(_) => {}
                    Outcome::Panic(p) if dm::is_deliberate(p) => {}
                    Outcome::Panic(p) => bad = Some(("parameter misplaced on this position is rejected by an internal panic instead of a diagnostic".into(), "a diagnostic".into(), format!("panic at {}:{}: {}", p.file, p.line, p.msg))),
                    Outcome::Ok(ts) => {
                        bad = Some((
                            "a parameter the family knows is accepted on a position that does not take it".into(),
                            format!("a diagnostic: `{form}` is not among the parameters of the {} position ({})", r.pos, if r.allowed.is_empty() { "none".to_string() } else { r.allowed.join(", ") }),
                            format!("expands Ok: {}", tok::norm(&ts.to_string()).chars().take(500).collect::<String>()),
                        ))
                    }
                }
            } else if documented {
                rep.evidence.label("class:documented-parameter-on-its-position");
                if let Outcome::Err(e) = &out {
                    let m = e.to_string();
                    if POSITION_DIAGNOSTICS.iter().any(|d| m.contains(d)) {
                        bad = Some(("a documented parameter is refused on the position the documentation names for it".into(), "accepted".into(), format!("derive error: {m}")));
                    }
                }
            } else {
                rep.evidence.label("class:undocumented-parameter-the-position-accepts(not judged)");
            }
            if let Some((what, expected, observed)) = bad {
                rep.violations.push(Violation {
                    sig: None,
                    summary: format!("{what} [{} / {} / co:misplaced-parameter]: `{variant}`", r.derive, r.pos),
                    case: json!({"derive": r.derive, "base": base, "variant": variant, "misplaced": {"allowed": allowed, "documented": documented}}),
                    expected,
                    observed,
                });
            }
        }
    }
}

pub fn run(ctx: &Ctx) -> Report {
    let mut rep = Report::new(RULE);
    rep.evidence.max_samples = 12;
    rep.evidence.assumptions = vec![
        "the documented attribute language per derive and position is the one transcribed in DESIGN.md Appendix A from impl/doc/*.md; positions the documentation does not name are out of scope".into(),
        "token equality is taken after sorting the top-level items of the expansion (impl order is not behaviour)".into(),
        "a corruption must be rejected by a diagnostic (syn::Error or an explicit panic!/assert! with a message); an internal panic (index, unwrap, unreachable) is reported".into(),
    ];
    legacy_duplicates(&mut rep);
    misplaced_parameters(&mut rep);
    let cells = cells();
    let (per_cell, rounds) = ctx.tier.pick((100usize, 1u32), (500, 4));
    let e2_per_cell = ctx.tier.pick(2usize, 4);
    let dice = proptest::collection::vec(proptest::num::u16::ANY, 160..=160);
    let mut distinct: Vec<HashSet<u64>> = vec![HashSet::new(); cells.len()];
    let mut rejects = 0u64;
    let mut reject_samples: Vec<String> = vec![];
    let mut misses: BTreeMap<String, u64> = BTreeMap::new();
    let mut bad: Vec<(Case, String, String, String, Option<String>)> = vec![];
    let mut e2_pick: Vec<Vec<Case>> = vec![vec![]; cells.len()];
    for round in 0..rounds {
        let mut runner = ctx.runner(round);
        let trees = draw(&mut runner, &dice, cells.len() * per_cell);
        let cases: Vec<(usize, Option<Case>)> = trees
            .into_par_iter()
            .enumerate()
            .map(|(k, t)| {
                let ci = k / per_cell;
                (ci, build_case(&cells[ci], &mut Dice::new(t.current())))
            })
            .collect();
        let verdicts: Vec<Option<Verdict>> = cases
            .par_iter()
            .map(|(_, c)| c.as_ref().map(|c| eval_e1(c.cell.derive, c.cell.kind.is_rewrite(), &c.base, &c.variant, c.predicted.as_ref().map(|(t, m)| (t.as_str(), *m)))))
            .collect();
        for ((ci, case), verdict) in cases.into_iter().zip(verdicts) {
            let cell = &cells[ci];
            let (Some(case), Some(verdict)) = (case, verdict) else {
                *misses.entry(cell.label()).or_insert(0) += 1;
                continue;
            };
            match verdict {
                Verdict::GeneratorReject(why) => {
                    rejects += 1;
                    rep.evidence.label("generator_reject");
                    if reject_samples.len() < 5 {
                        reject_samples.push(format!("{}: {why}", cell.label()));
                    }
                    continue;
                }
                Verdict::Pass(how) => {
                    rep.evidence.label(&format!("outcome:{how}"));
                    if e2_pick[ci].len() < e2_per_cell && case.e2.is_some() && !e2_pick[ci].iter().any(|c| c.variant == case.variant) {
                        e2_pick[ci].push(case.clone());
                    }
                }
                Verdict::Bad { what, expected, observed, sig } => {
                    rep.evidence.label("outcome:violation");
                    bad.push((case.clone(), what, expected, observed, sig));
                }
            }
            rep.evidence.eval(1);
            let h = hash_str(&format!("{}|{}|{}", cell.derive, case.base, case.variant));
            if distinct[ci].insert(h) {
                rep.evidence.nontrivial_hash(h);
            }
            rep.evidence.label(&format!("kind:{}", cell.kind.name()));
            rep.evidence.label(&format!("position:{}", cell.pos.name()));
            rep.evidence.label(&format!("detail:{}:{}", cell.kind.name(), case.detail));
            for cl in &case.classes {
                rep.evidence.label(cl);
            }
            if rep.evidence.evaluations % 1499 == 1 {
                rep.evidence.sample(case_json(&case));
            }
        }
    }
    // per-cell distinct counts: the property's non-triviality rule (floor 5)
    let mut per_cell_counts: BTreeMap<String, u64> = BTreeMap::new();
    let mut low: Vec<String> = vec![];
    for (ci, c) in cells.iter().enumerate() {
        let n = distinct[ci].len() as u64;
        per_cell_counts.insert(c.label(), n);
        rep.evidence.label_n(&format!("cell:{}", c.label()), n);
        if n < 5 {
            low.push(format!("{}={n} (generator misses {})", c.label(), misses.get(&c.label()).copied().unwrap_or(0)));
        }
    }
    rep.evidence.set("cells", json!(cells.len()));
    rep.evidence.set("min_distinct_per_cell", json!(per_cell_counts.values().min().copied().unwrap_or(0)));
    rep.evidence.set("generator_rejects", json!(rejects));
    rep.evidence.set("generator_reject_samples", json!(reject_samples));
    rep.evidence.set("generator_miss_cells", json!(misses));
    rep.evidence.set("generator_misses", json!(misses.values().sum::<u64>()));
    for (cl, min) in CLASS_FLOORS {
        let n = rep.evidence.labels.get(cl).copied().unwrap_or(0);
        if n < min {
            rep.infra_errors.push(format!("generator distribution: input class `{cl}` occurs {n} times, floor {min}"));
        }
    }
    if !low.is_empty() {
        rep.infra_errors.push(format!("generator distribution: cells below the floor of 5 distinct cases: {}", low.join("; ")));
    }
    let total = rep.evidence.evaluations + rejects;
    if rejects as f64 > 0.02 * total as f64 {
        rep.infra_errors.push(format!("generator unsound: {rejects} of {total} base items are not accepted by the derive, e.g. {}", reject_samples.join(" || ")));
    }

    // E1 violations: known defect models are all recorded; anything else once per (cell, detail), smallest first
    bad.sort_by_key(|b| b.0.variant.len() + b.0.base.len());
    let mut reported = HashSet::new();
    for (case, what, expected, observed, sig) in bad {
        let known = sig.as_ref().is_some_and(|s| ctx.is_known(s));
        let key = format!("{}|{}|{:?}", case.cell.label(), case.detail, sig);
        if !known && !reported.insert(key) {
            continue;
        }
        rep.violations.push(Violation {
            sig,
            summary: format!("{} [{} / {} / {} / {}]: `{}`", what, case.cell.derive, case.cell.pos.name(), case.cell.kind.name(), case.detail, tok::norm(&case.variant)),
            case: case_json(&case),
            expected,
            observed,
        });
    }

    // E2 sample
    let sample: Vec<Case> = e2_pick.into_iter().flatten().collect();
    let mut srcs: Vec<CaseSrc> = vec![];
    for c in &sample {
        let e = c.e2.as_ref().unwrap();
        let rw = c.cell.kind.is_rewrite();
        srcs.push(CaseSrc { body: e.control.clone(), runnable: true, negative: false });
        srcs.push(CaseSrc { body: e.case.clone(), runnable: rw, negative: !rw });
    }
    match build_and_run(ctx, &e2_spec("gen_c17"), &srcs) {
        Err(e) => rep.infra_errors.push(format!("E2: {e}")),
        Ok(built) => {
            rep.infra_errors.extend(built.infra.clone());
            rep.evidence.set("e2_builds", json!(built.builds));
            let mut e2_rejects = 0u64;
            let mut e2_reject_sample = String::new();
            let mut seen = HashSet::new();
            for (i, c) in sample.iter().enumerate() {
                let (ctrl, res) = (&built.results[2 * i], &built.results[2 * i + 1]);
                let rw = c.cell.kind.is_rewrite();
                rep.evidence.label(if rw { "e2:positive_pairs" } else { "e2:negative_cases" });
                match judge_e2(rw, ctrl, res) {
                    None => {}
                    Some(Err(())) => {
                        e2_rejects += 1;
                        rep.evidence.label("e2:generator_reject");
                        if e2_reject_sample.len() < 6000 {
                            e2_reject_sample += &format!("{}: {}\n{}\n", c.cell.label(), ctrl.error_text(), c.e2.as_ref().unwrap().control);
                        }
                    }
                    Some(Ok((what, expected, observed))) => {
                        if !seen.insert(format!("{}|{}|{what}", c.cell.label(), c.detail)) {
                            continue;
                        }
                        let e = c.e2.as_ref().unwrap();
                        rep.violations.push(Violation {
                            sig: None,
                            summary: format!("E2 {} [{} / {} / {} / {}]: `{}`", what, c.cell.derive, c.cell.pos.name(), c.cell.kind.name(), c.detail, tok::norm(&c.variant)),
                            case: json!({"e2": {"rewrite": rw, "control": e.control, "case": e.case}, "derive": c.cell.derive}),
                            expected,
                            observed,
                        });
                    }
                }
            }
            rep.evidence.set("e2_cases", json!(sample.len()));
            rep.evidence.set("e2_generator_rejects", json!(e2_rejects));
            rep.evidence.set("e2_reject_sample", json!(e2_reject_sample));
            if e2_rejects as f64 > 0.02 * sample.len().max(1) as f64 {
                rep.infra_errors.push(format!("E2 generator unsound: {e2_rejects} of {} control programs do not compile, e.g. {e2_reject_sample}", sample.len()));
            }
        }
    }
    rep.evidence.exhaustive = Some(false);
    rep.evidence.explanation = format!("{} (derive, position, kind) cells x {} seeded draws x {} round(s); {} E2 programs per cell", cells.len(), per_cell, rounds, e2_per_cell);
    rep
}

pub fn replay(ctx: &Ctx, case: &Value) -> Report {
    let mut rep = Report::new(RULE);
    rep.evidence.eval(1);
    if let Some(list) = case["probe"].as_array() {
        // development aid: {"probe": [[derive, item], ..]} prints the in-process outcome of each item
        for p in list {
            let (Some(dn), Some(item)) = (p[0].as_str(), p[1].as_str()) else { continue };
            let out = Derive::by_name(dn).map(|d| dm::expand_src(d, item));
            match out {
                Some(Ok(Outcome::Ok(ts))) => println!("PROBE {dn} | {item}\n   -> Ok {}", norm_ts(&ts)),
                Some(Ok(Outcome::Err(e))) => println!("PROBE {dn} | {item}\n   -> Err {e}"),
                Some(Ok(Outcome::Panic(p))) => println!("PROBE {dn} | {item}\n   -> Panic(deliberate={}) {}:{} {}", dm::is_deliberate(&p), p.file, p.line, p.msg),
                Some(Err(e)) => println!("PROBE {dn} | {item}\n   -> unparsable {e}"),
                None => println!("PROBE unknown derive {dn}"),
            }
        }
        return rep;
    }
    if let Some(filter) = case["dump"].as_str() {
        // development aid: {"dump": "<substring of a cell label>"} prints three generated cases per matching cell
        let mut runner = ctx.runner(0);
        let dice = proptest::collection::vec(proptest::num::u16::ANY, 160..=160);
        for c in cells().iter().filter(|c| c.label().contains(filter)) {
            let mut shown = 0;
            for t in draw(&mut runner, &dice, 40) {
                if shown >= 3 {
                    break;
                }
                if let Some(k) = build_case(c, &mut Dice::new(t.current())) {
                    shown += 1;
                    let v = eval_e1(c.derive, c.kind.is_rewrite(), &k.base, &k.variant, k.predicted.as_ref().map(|(t, m)| (t.as_str(), *m)));
                    let vs = match v {
                        Verdict::Pass(h) => format!("pass:{h}"),
                        Verdict::GeneratorReject(e) => format!("REJECT {e}"),
                        Verdict::Bad { what, sig, .. } => format!("BAD {what} sig={sig:?}"),
                    };
                    println!("DUMP {} [{}] {vs}\n   base:    {}\n   variant: {}", c.label(), k.detail, tok::norm(&k.base), tok::norm(&k.variant));
                }
            }
        }
        return rep;
    }
    if case["e2"].is_object() {
        let e = &case["e2"];
        let rw = e["rewrite"].as_bool().unwrap_or(false);
        let srcs = vec![
            CaseSrc { body: e["control"].as_str().unwrap_or("").to_string(), runnable: true, negative: false },
            CaseSrc { body: e["case"].as_str().unwrap_or("").to_string(), runnable: rw, negative: !rw },
        ];
        match build_and_run(ctx, &e2_spec("gen_c17_replay"), &srcs) {
            Err(e) => rep.infra_errors.push(e),
            Ok(b) => match judge_e2(rw, &b.results[0], &b.results[1]) {
                None => {}
                Some(Err(())) => rep.infra_errors.push(format!("control program does not compile: {}", b.results[0].error_text())),
                Some(Ok((what, expected, observed))) => rep.violations.push(Violation { sig: None, summary: format!("E2 {what}"), case: case.clone(), expected, observed }),
            },
        }
        return rep;
    }
    let (Some(derive), Some(base), Some(variant)) = (case["derive"].as_str(), case["base"].as_str(), case["variant"].as_str()) else {
        rep.infra_errors.push("replay case needs derive, base, variant".into());
        return rep;
    };
    if case["misplaced"].is_object() {
        let (allowed, documented) = (case["misplaced"]["allowed"].as_bool().unwrap_or(false), case["misplaced"]["documented"].as_bool().unwrap_or(false));
        if let Some(dv) = Derive::by_name(derive) {
            match dm::expand_src(dv, variant) {
                Ok(Outcome::Ok(_)) if !allowed => rep.violations.push(Violation { sig: None, summary: format!("a parameter the family knows is accepted on a position that does not take it: `{variant}`"), case: case.clone(), expected: "a diagnostic".into(), observed: "expands Ok".into() }),
                Ok(Outcome::Panic(p)) if !allowed && !dm::is_deliberate(&p) => rep.violations.push(Violation { sig: None, summary: format!("misplaced parameter is rejected by an internal panic: `{variant}`"), case: case.clone(), expected: "a diagnostic".into(), observed: p.msg.clone() }),
                Ok(Outcome::Err(e)) if allowed && documented && e.to_string().contains("Attribute") => rep.violations.push(Violation { sig: None, summary: format!("a documented parameter is refused on its position: `{variant}`"), case: case.clone(), expected: "accepted".into(), observed: e.to_string() }),
                Ok(_) => {}
                Err(e) => rep.infra_errors.push(e),
            }
        }
        return rep;
    }
    let rewrite = case["rewrite"].as_bool().unwrap_or(false);
    let pred = case["predicted"].as_array().and_then(|a| Some((a.first()?.as_str()?, a.get(1)?.as_str()?)));
    match eval_e1(derive, rewrite, base, variant, pred) {
        Verdict::Pass(_) => {}
        Verdict::GeneratorReject(e) => rep.infra_errors.push(format!("not a case of the domain: {e}")),
        Verdict::Bad { what, expected, observed, sig } => rep.violations.push(Violation { sig, summary: format!("{what}: `{}`", tok::norm(variant)), case: case.clone(), expected, observed }),
    }
    rep
}

//! C07 — enum-level format attribute: wraps every variant when it mentions `_variant`, otherwise it is only
//! a default for the variants without an attribute of their own; `_variant` with a specifier or a
//! non-Display trait is rejected; an enum-level format on `Debug` is rejected.
//!
//! Positive cases: a generated enum deriving one of the eight Display-like traits, plus two reference
//! methods on the same type: `__own` (what the variant prints by itself: its own attribute through plain
//! `format!`, else its single field under the derived trait, else its (renamed) name) and `__ref` (the
//! documented combination rule, again through plain `format!` with `_variant` bound to the `__own` text).
//! Negative cases (`expect_compile = false`): the same generator's wrapping enums with one `_variant`
//! placeholder carrying a specifier / non-Display type, and enums deriving `derive_more::Debug` with an
//! enum-level format. In-process (E1) the complete single-placeholder spec grid is screened; whatever the
//! expander accepts there is confirmed through rustc before it is reported.
use super::core::*;
use super::dm;
use super::lit::*;
use super::p02::{arg_expr, casing, Field, CASINGS, K, PRELUDE, WORDS};
use super::proggen::{build_and_run, CaseResult, CaseSrc, ProgSpec};
use super::progprop::*;
use serde_json::{json, Value};

/// (trait, attribute, type string of the trait's placeholder)
const DTRAITS: [(&str, &str, &str); 8] = [
    ("Display", "display", ""),
    ("LowerHex", "lower_hex", "x"),
    ("Binary", "binary", "b"),
    ("Octal", "octal", "o"),
    ("UpperHex", "upper_hex", "X"),
    ("LowerExp", "lower_exp", "e"),
    ("UpperExp", "upper_exp", "E"),
    ("Pointer", "pointer", "p"),
];
const KINDS: [K; 5] = [K::Int, K::Str, K::Float, K::Ptr, K::Size];

pub const SIG_UNIT_DEFAULT: &str = "c07-nondisplay-unit-default-rejected";
pub const SIG_PTR_WRAP: &str = "c07-wrap-pointer-implicit-field";
const UNIT_MSG: &str = "implicit formatting of unit enum variant is supported only for `Display`";

#[derive(Clone, Copy, PartialEq, Eq, Debug)]
enum Shape {
    Unit,
    EmptyTuple,
    EmptyBrace,
    Tuple,
    Named,
}

#[derive(Clone, Copy, PartialEq, Eq, Debug)]
enum Mode {
    /// no enum-level format
    NoShared,
    /// enum-level format is nothing but one bare `_variant` placeholder
    Transparent,
    /// enum-level format mentions `_variant` among text / fields
    Wrap,
    /// enum-level format does not mention `_variant`
    Default,
}

impl Mode {
    fn name(self) -> &'static str {
        match self {
            Mode::NoShared => "none",
            Mode::Transparent => "transparent",
            Mode::Wrap => "wrap",
            Mode::Default => "default",
        }
    }
}

/// A format literal with its arguments, as source for the attribute and for the reference `format!` call.
#[derive(Clone, Debug, Default)]
struct LitSrc {
    pieces: Vec<Piece>,
    pos: Vec<String>,
    named: Vec<(String, String)>,
    /// fields named directly in the literal: they stand for the field itself (not for the `&field` binding)
    directs: Vec<String>,
    counter: usize,
}

impl LitSrc {
    fn lit(&self) -> String {
        render(&self.pieces)
    }
    fn lit_tok(&self) -> String {
        proc_macro2::Literal::string(&self.lit()).to_string()
    }
    fn args_src(&self) -> Vec<String> {
        self.pos.iter().cloned().chain(self.named.iter().map(|(a, e)| format!("{a} = {e}"))).collect()
    }
    fn attr_args(&self) -> String {
        let a = self.args_src();
        if a.is_empty() {
            self.lit_tok()
        } else {
            format!("{}, {}", self.lit_tok(), a.join(", "))
        }
    }
    /// plain `format!` with the identical literal and arguments and the documented bindings
    fn ref_call(&self) -> String {
        let a: Vec<String> = self.args_src().into_iter().chain(self.directs.iter().map(|n| format!("{n} = *{n}"))).collect();
        if a.is_empty() {
            format!("format!({})", self.lit_tok())
        } else {
            format!("format!({}, {})", self.lit_tok(), a.join(", "))
        }
    }
    fn has_text(&self) -> bool {
        self.pieces.iter().any(|p| !matches!(p, Piece::Ph(_)))
    }
    fn n_ph(&self) -> usize {
        self.pieces.iter().filter(|p| matches!(p, Piece::Ph(_))).count()
    }
    fn text(&mut self, d: &mut Dice, extra: &[String]) {
        let n = 7 + extra.len();
        let p = match d.pick(n) {
            0 => Piece::Text(" ".into()),
            1 => Piece::Text(": ".into()),
            2 => Piece::Text("<".into()),
            3 => Piece::Text(">".into()),
            4 => Piece::Open,
            5 => Piece::Close,
            6 => Piece::Text("é→".into()),
            k => Piece::Text(extra[k - 7].clone()),
        };
        self.pieces.push(p);
    }
    fn positional(&mut self, d: &mut Dice, expr: &str, spec: Spec) {
        // an identical earlier positional argument may be referred to again by index
        if let Some(j) = self.pos.iter().position(|e| e == expr) {
            if d.chance(50) {
                self.pieces.push(Piece::Ph(Ph { arg: Arg::Index(j), spec }));
                return;
            }
        }
        let i = self.pos.len();
        self.pos.push(expr.to_string());
        let arg = if self.counter == i && d.chance(65) {
            self.counter += 1;
            Arg::Implicit
        } else {
            Arg::Index(i)
        };
        self.pieces.push(Piece::Ph(Ph { arg, spec }));
    }
    fn alias(&mut self, d: &mut Dice, expr: &str, spec: Spec) {
        if let Some((a, _)) = self.named.iter().find(|(_, e)| e == expr) {
            if d.chance(50) {
                let a = a.clone();
                self.pieces.push(Piece::Ph(Ph { arg: Arg::Name(a), spec }));
                return;
            }
        }
        let pool = ["v", "k", "al", "n2", "q", "zz"];
        let Some(a) = pool.iter().find(|a| !self.named.iter().any(|(n, _)| n == *a)) else {
            return self.positional(d, expr, spec);
        };
        self.named.push((a.to_string(), expr.to_string()));
        self.pieces.push(Piece::Ph(Ph { arg: Arg::Name(a.to_string()), spec }));
    }
    fn direct_field(&mut self, name: &str, spec: Spec) {
        if !self.directs.iter().any(|n| n == name) {
            self.directs.push(name.to_string());
        }
        self.pieces.push(Piece::Ph(Ph { arg: Arg::Name(name.to_string()), spec }));
    }
    fn direct_variant(&mut self, spec: Spec) {
        self.pieces.push(Piece::Ph(Ph { arg: Arg::Name("_variant".into()), spec }));
    }
}

/// Something a literal may print: a field visible under `name`, formattable with any of `tys`; `repr` is set
/// when the field has the same kind wherever the literal applies (then expressions over it are possible).
#[derive(Clone, Debug)]
struct Avail {
    name: String,
    tys: Vec<&'static str>,
    repr: Option<Field>,
}

fn field_spec(d: &mut Dice, tys: &[&'static str]) -> Spec {
    let ty = tys[d.pick(tys.len())];
    let mut s = Spec::bare(ty);
    if d.chance(30) {
        match d.pick(5) {
            0 => s.width = Cnt::Int(d.range(1, 9)),
            1 => {
                s.fill = Some(*d.choose(&['*', '0', 'é', '#']));
                s.align = Some(*d.choose(&['<', '^', '>']));
                s.width = Cnt::Int(d.range(1, 9));
            }
            2 => s.sign = Some('+'),
            3 => s.alt = true,
            _ => {
                s.zero = true;
                s.width = Cnt::Int(d.range(1, 9));
            }
        }
        if ty != "p" && d.chance(25) {
            s.prec = Cnt::Int(d.range(0, 4));
        }
    }
    s
}

/// one placeholder printing a field, in one of the documented argument forms
/// The types usable when the field is passed as an *argument* (`"{:p}", _0`): the binding is a reference to the
/// field, and whether `{:p}` then shows the binding's or the field's address depends on the (C02/C05) substitution
/// of single-placeholder literals by a direct trait call — not this property's business, so `p` is left out.
fn arg_tys(tys: &[&'static str]) -> Vec<&'static str> {
    let v: Vec<&'static str> = tys.iter().copied().filter(|t| *t != "p").collect();
    if v.is_empty() {
        vec![""]
    } else {
        v
    }
}

fn field_atom(d: &mut Dice, l: &mut LitSrc, a: &Avail) {
    match d.weighted(&[5, 3, 2, 2, 1]) {
        // `{name:.*}`: the precision is taken from the next implicit positional argument, which later `{}` must skip
        4 if a.tys.contains(&"") && l.pos.len() == l.counter => {
            l.pos.push("2".into());
            l.counter += 1;
            let mut sp = Spec::bare("");
            sp.prec = Cnt::Star;
            l.direct_field(&a.name, sp)
        }
        4 => {
            let sp = field_spec(d, &a.tys);
            l.direct_field(&a.name, sp)
        }
        0 => {
            let sp = field_spec(d, &a.tys);
            l.direct_field(&a.name, sp)
        }
        1 => {
            let sp = field_spec(d, &arg_tys(&a.tys));
            l.positional(d, &a.name, sp)
        }
        2 => {
            let sp = field_spec(d, &arg_tys(&a.tys));
            l.alias(d, &a.name, sp)
        }
        _ => match &a.repr {
            Some(f) => {
                let (expr, kind, bare) = arg_expr(f, d);
                let sp = if bare { field_spec(d, &arg_tys(kind.tys())) } else { field_spec(d, kind.tys()) };
                if d.chance(50) {
                    l.positional(d, &expr, sp)
                } else {
                    l.alias(d, &expr, sp)
                }
            }
            None => {
                let sp = field_spec(d, &arg_tys(&a.tys));
                l.positional(d, &a.name, sp)
            }
        },
    }
}

struct Var {
    name: String,
    words: Vec<&'static str>,
    raw: bool,
    shape: Shape,
    fields: Vec<Field>,
    own: Option<LitSrc>,
    own_substitutable: bool,
    rename: Option<&'static str>,
    values: Vec<String>,
    values2: Vec<String>,
    /// fields of this kind are declared with the enum's type parameter `G`
    gk: Option<K>,
}

impl Var {
    fn ident(&self) -> String {
        if self.raw {
            format!("r#{}", self.name)
        } else {
            self.name.clone()
        }
    }
    fn decl(&self) -> String {
        let id = self.ident();
        let ty = |f: &Field| if Some(f.kind) == self.gk { "G" } else { f.kind.ty() };
        match self.shape {
            Shape::Unit => id,
            Shape::EmptyTuple => format!("{id}()"),
            Shape::EmptyBrace => format!("{id} {{}}"),
            Shape::Tuple => format!("{id}({})", self.fields.iter().map(|f| ty(f)).collect::<Vec<_>>().join(", ")),
            Shape::Named => format!("{id} {{ {} }}", self.fields.iter().map(|f| format!("{}: {}", f.member, ty(f))).collect::<Vec<_>>().join(", ")),
        }
    }
    fn pat(&self) -> String {
        let id = self.ident();
        match self.shape {
            Shape::Unit => format!("T::{id}"),
            Shape::EmptyTuple => format!("T::{id}()"),
            Shape::EmptyBrace => format!("T::{id} {{}}"),
            Shape::Tuple => format!("T::{id}({})", self.fields.iter().map(|f| f.name.clone()).collect::<Vec<_>>().join(", ")),
            Shape::Named => format!("T::{id} {{ {} }}", self.fields.iter().map(|f| f.name.clone()).collect::<Vec<_>>().join(", ")),
        }
    }
    fn ctor(&self, values: &[String]) -> String {
        let id = self.ident();
        match self.shape {
            Shape::Unit => format!("T::{id}"),
            Shape::EmptyTuple => format!("T::{id}()"),
            Shape::EmptyBrace => format!("T::{id} {{}}"),
            Shape::Tuple => format!("T::{id}({})", values.join(", ")),
            Shape::Named => format!("T::{id} {{ {} }}", self.fields.iter().zip(values).map(|(f, v)| format!("{}: {v}", f.member)).collect::<Vec<_>>().join(", ")),
        }
    }
}

struct EnumModel {
    /// the kind declared as the type parameter `G` (`pub enum T<G>`), if any field has it
    gk: Option<K>,
    /// 0: enum-level format first, then rename_all; 1: rename_all first
    attr_order: u8,
    /// an enum-level `#[attr(bound(..))]` with a trivially true predicate, and where it is written (0 first, 1 last)
    enum_bound: Option<u8>,
    tr: &'static str,
    attr: &'static str,
    tr_ty: &'static str,
    mode: Mode,
    rename_all: Option<&'static str>,
    shared: Option<LitSrc>,
    vars: Vec<Var>,
    labels: Vec<String>,
    /// variants without own attribute and without fields under a non-Display trait, covered only by a default
    unit_default_nondisplay: bool,
    /// variants whose own text is their single field under `Pointer` while the enum-level format wraps
    ptr_implicit: Vec<String>,
}

fn own_literal(d: &mut Dice, name: &str, fields: &[Field], tr_ty: &'static str, gk: Option<K>) -> (LitSrc, bool) {
    let mut l = LitSrc::default();
    let extra = vec![name.to_string(), format!("{name} ")];
    if fields.is_empty() || d.chance(12) {
        l.pieces.push(Piece::Text(name.to_lowercase()));
        if d.chance(30) {
            l.text(d, &extra);
        }
        return (l, false);
    }
    // a field of the enum's type parameter is only referred to directly (display.md: "Bounds can only be inferred this
    // way if a field is used directly in the interpolation"), never inside an expression
    let avail: Vec<Avail> = fields.iter().map(|f| Avail { name: f.name.clone(), tys: f.kind.tys().to_vec(), repr: (Some(f.kind) != gk).then(|| f.clone()) }).collect();
    if d.chance(25) {
        // a single bare placeholder: can be substituted by a direct call of the placeholder's trait
        let a = &avail[d.pick(avail.len())];
        let ty = if a.tys.contains(&tr_ty) && d.chance(60) {
            tr_ty
        } else {
            let plain: Vec<&'static str> = a.tys.iter().copied().filter(|t| *t != "x?" && *t != "X?").collect();
            plain[d.pick(plain.len())]
        };
        let sp = Spec::bare(ty);
        match if ty == "p" { 0 } else { d.pick(3) } {
            0 => l.direct_field(&a.name, sp),
            1 => l.positional(d, &a.name, sp),
            _ => l.alias(d, &a.name, sp),
        }
        return (l, true);
    }
    let n = d.range(1, 3);
    for _ in 0..n {
        if d.chance(70) {
            l.text(d, &extra);
        }
        let a = avail[d.pick(avail.len())].clone();
        field_atom(d, &mut l, &a);
    }
    if !l.has_text() || d.chance(30) {
        l.text(d, &extra);
    }
    (l, false)
}

fn supports(k: K, ty: &str) -> bool {
    k.tys().contains(&ty)
}

fn gen_var(d: &mut Dice, i: usize, style: usize, tr_ty: &'static str, mode: Mode, seen: &mut Vec<String>, m_flags: &mut (bool,), gk: Option<K>) -> Var {
    let is_display = tr_ty.is_empty();
    // name: one or two Pascal words, unique within the enum
    let mut words: Vec<&'static str> = vec![WORDS[d.pick(WORDS.len())]];
    if d.chance(35) {
        words.push(WORDS[d.pick(WORDS.len())]);
    }
    let mut k = 0;
    while seen.contains(&words.concat()) {
        words.push(WORDS[(i + k) % WORDS.len()]);
        k += 1;
    }
    let name = words.concat();
    seen.push(name.clone());
    let raw = d.chance(8);
    let named = match style {
        0 => false,
        1 => true,
        _ => d.chance(50),
    };
    let (shape, nf) = match d.weighted(&[5, 3, 3, 1]) {
        0 => (if named { Shape::Named } else { Shape::Tuple }, 1),
        1 => (if named { Shape::Named } else { Shape::Tuple }, d.range(2, 3)),
        2 => (Shape::Unit, 0),
        _ => (if named { Shape::EmptyBrace } else { Shape::EmptyTuple }, 0),
    };
    let pool = ["a", "b", "x"];
    let mut fields = vec![];
    for j in 0..nf {
        let fit: Vec<K> = KINDS.iter().copied().filter(|k| supports(*k, tr_ty)).collect();
        let kind = if !is_display && d.chance(75) { fit[d.pick(fit.len())] } else { KINDS[d.weighted(&[5, 3, 2, 2, 2])] };
        let (fname, member) = if shape == Shape::Named { (pool[j].to_string(), pool[j].to_string()) } else { (format!("_{j}"), format!("{j}")) };
        fields.push(Field { name: fname, member, kind });
    }
    // what the variant prints by itself when it has no attribute: documented only for these
    let implicit_ok = match nf {
        0 => is_display,
        1 => supports(fields[0].kind, tr_ty),
        _ => false,
    };
    let mut has_own = d.chance(50);
    if !has_own && !implicit_ok {
        if mode == Mode::Default && nf > 0 {
            // the default stands in; the field(s) need not be formattable at all
        } else if mode == Mode::Default && !m_flags.0 && d.chance(25) {
            // field-less variant under a non-Display trait relying on the enum-level default
            m_flags.0 = true;
        } else {
            has_own = true;
        }
    }
    let (own, own_substitutable) = if has_own {
        let (l, s) = own_literal(d, &name, &fields, tr_ty, gk);
        (Some(l), s)
    } else {
        (None, false)
    };
    // a variant-level rename_all: decides the name of a field-less variant without own format; next to an own format
    // it has nothing to rename
    let rename = if is_display && nf == 0 && !has_own && d.chance(25) {
        Some(CASINGS[d.pick(8)])
    } else if is_display && nf == 0 && has_own && d.chance(10) {
        Some(CASINGS[d.pick(8)])
    } else {
        None
    };
    let values = fields.iter().enumerate().map(|(j, f)| f.kind.value(i + j, d)).collect();
    let values2 = fields.iter().enumerate().map(|(j, f)| f.kind.value(i + j + 1, d)).collect();
    Var { name, words, raw, shape, fields, own, own_substitutable, rename, values, values2, gk }
}

/// fields visible (with a common way of printing them) in every variant of `app`
fn common_fields(app: &[&Var], gk: Option<K>) -> Vec<Avail> {
    let Some(first) = app.first() else { return vec![] };
    let shape = first.shape;
    if !matches!(shape, Shape::Tuple | Shape::Named) || app.iter().any(|v| v.shape != shape) {
        return vec![];
    }
    let n = app.iter().map(|v| v.fields.len()).min().unwrap_or(0);
    let mut out = vec![];
    for j in 0..n {
        let name = first.fields[j].name.clone();
        if app.iter().any(|v| v.fields[j].name != name) {
            continue;
        }
        let tys: Vec<&'static str> = first.fields[j].kind.tys().iter().copied().filter(|t| app.iter().all(|v| supports(v.fields[j].kind, t))).collect();
        if tys.is_empty() {
            continue;
        }
        let uniform = app.iter().all(|v| v.fields[j].kind == first.fields[j].kind);
        let generic = app.iter().any(|v| Some(v.fields[j].kind) == gk);
        out.push(Avail { name, tys, repr: (uniform && !generic).then(|| first.fields[j].clone()) });
    }
    out
}

fn variant_use(d: &mut Dice, l: &mut LitSrc, spec: Spec, labels: &mut Vec<String>) {
    match d.weighted(&[5, 3, 3]) {
        0 => {
            l.direct_variant(spec);
            labels.push("variant_via_placeholder".into());
        }
        1 => {
            l.positional(d, "_variant", spec);
            labels.push("variant_via_positional".into());
        }
        _ => {
            l.alias(d, "_variant", spec);
            labels.push("variant_via_alias".into());
        }
    }
}

fn gen_enum(d: &mut Dice, tr: (&'static str, &'static str, &'static str), mode: Mode) -> EnumModel {
    let (tr, attr, tr_ty) = tr;
    let is_display = tr_ty.is_empty();
    let mut labels = vec![format!("trait={tr}"), format!("mode={}", mode.name())];
    let style = d.weighted(&[5, 3, 3]);
    let nv = d.range(1, 5);
    let mut seen = vec![];
    let mut flags = (false,);
    // fields of one kind may be declared with a type parameter of the enum (`pub enum T<G>`, used as `T<i32>`)
    let gk0 = if d.chance(25) { Some([K::Int, K::Str, K::Float, K::Size][d.pick(4)]) } else { None };
    let mut vars: Vec<Var> = (0..nv).map(|i| gen_var(d, i, style, tr_ty, mode, &mut seen, &mut flags, gk0)).collect();
    if mode != Mode::NoShared && nv >= 2 && d.chance(60) {
        // make sure the interesting mixture (with and without own attribute) is frequent
        let with = vars.iter().filter(|v| v.own.is_some()).count();
        if with == 0 {
            let k = d.pick(nv);
            let (l, s) = own_literal(d, &vars[k].name.clone(), &vars[k].fields.clone(), tr_ty, gk0);
            vars[k].own = Some(l);
            vars[k].own_substitutable = s;
            vars[k].rename = None;
        }
    }
    let rename_all = if is_display && d.chance(30) { Some(CASINGS[d.pick(8)]) } else { None };

    let mut shared = LitSrc::default();
    let words = ["Variant: ".to_string(), "Enum E".to_string(), " & ".to_string()];
    let has_shared = match mode {
        Mode::NoShared => false,
        Mode::Transparent => {
            variant_use(d, &mut shared, Spec::bare(""), &mut labels);
            true
        }
        Mode::Wrap => {
            let app: Vec<&Var> = vars.iter().collect();
            let avail = common_fields(&app, gk0);
            let nuse = 1 + d.weighted(&[5, 3, 2]);
            let nfld = if avail.is_empty() { 0 } else { d.weighted(&[4, 4, 2]) };
            // interleave: 1 = `_variant`, 0 = field
            let mut items: Vec<u8> = vec![];
            let (mut u, mut f) = (nuse, nfld);
            while u + f > 0 {
                if f == 0 || (u > 0 && d.pick(u + f) < u) {
                    items.push(1);
                    u -= 1;
                } else {
                    items.push(0);
                    f -= 1;
                }
            }
            let texty = d.chance(88);
            for it in items {
                if texty && d.chance(70) {
                    shared.text(d, &words);
                }
                if it == 1 {
                    variant_use(d, &mut shared, Spec::bare(""), &mut labels);
                } else {
                    let a = avail[d.pick(avail.len())].clone();
                    field_atom(d, &mut shared, &a);
                    labels.push("shared_refs_field".into());
                }
            }
            if texty && (!shared.has_text() || d.chance(40)) {
                shared.text(d, &words);
            }
            if shared.n_ph() == 1 && !shared.has_text() {
                // that is the transparent form; keep the classes apart
                shared.pieces.insert(0, Piece::Text("Variant: ".into()));
            }
            labels.push(format!("variant_uses={nuse}"));
            true
        }
        Mode::Default => {
            let app: Vec<&Var> = vars.iter().filter(|v| v.own.is_none()).collect();
            let avail = common_fields(&app, gk0);
            let nfld = if avail.is_empty() { 0 } else { d.weighted(&[3, 5, 3]) };
            if nfld == 0 && tr_ty != "p" && d.chance(22) {
                // the whole default format is one bare placeholder of the derived trait over a non-field argument: a
                // "transparent" literal that does not mention `_variant` is still the format of every attribute-less
                // variant, unit variants included (seed C02-l)
                if d.chance(50) {
                    shared.positional(d, "self.tag()", Spec::bare(tr_ty));
                } else {
                    shared.alias(d, "self.tag()", Spec::bare(tr_ty));
                }
                labels.push("default_is_one_bare_placeholder".into());
            } else if nfld == 0 || d.chance(70) {
                shared.text(d, &words);
            }
            for _ in 0..nfld {
                let a = avail[d.pick(avail.len())].clone();
                field_atom(d, &mut shared, &a);
                labels.push("shared_refs_field".into());
                if d.chance(50) {
                    shared.text(d, &words);
                }
            }
            if app.is_empty() {
                labels.push("default_applies_to_no_variant".into());
            }
            true
        }
    };
    if has_shared && matches!(mode, Mode::Wrap | Mode::Default) {
        // the word `_variant` as text / in escaped braces is not a mention of `_variant`
        if d.chance(12) {
            let at = d.pick(shared.pieces.len() + 1);
            if d.chance(60) {
                shared.pieces.insert(at, Piece::Close);
                shared.pieces.insert(at, Piece::Text("_variant".into()));
                shared.pieces.insert(at, Piece::Open);
                labels.push("shared_escaped_variant_braces".into());
            } else {
                shared.pieces.insert(at, Piece::Text("_variant ".into()));
                labels.push("shared_text_variant_word".into());
            }
            if mode == Mode::Default {
                labels.push("default_mode_with_variant_word_as_text".into());
            }
        }
        // `self` is available to the enum-level arguments as well
        if d.chance(10) {
            if d.chance(50) {
                shared.positional(d, "self.tag()", Spec::bare(""));
            } else {
                shared.alias(d, "self.tag()", Spec::bare(""));
            }
            labels.push("shared_uses_self".into());
        }
    }
    let gk = gk0.filter(|k| vars.iter().any(|v| v.fields.iter().any(|f| f.kind == *k)));
    for v in vars.iter_mut() {
        v.gk = gk;
    }
    if let Some(k) = gk {
        labels.push("generic_enum".into());
        if has_shared && shared.pieces.iter().any(|p| match p {
            Piece::Ph(ph) => {
                let n = match &ph.arg {
                    Arg::Name(n) => shared.named.iter().find(|(a, _)| a == n).map(|(_, e)| e.clone()).unwrap_or_else(|| n.clone()),
                    Arg::Index(i) => shared.pos.get(*i).cloned().unwrap_or_default(),
                    Arg::Implicit => String::new(),
                };
                vars.iter().any(|v| v.fields.iter().any(|f| f.name == n && f.kind == k))
            }
            _ => false,
        }) {
            labels.push("generic_enum_shared_names_generic_field".into());
        }
    }
    let attr_order = if has_shared && rename_all.is_some() && d.chance(40) { 1 } else { 0 };
    if attr_order == 1 {
        labels.push("enum_rename_all_before_format".into());
    }
    let enum_bound = if d.chance(8) { Some(d.pick(2) as u8) } else { None };
    if enum_bound.is_some() {
        labels.push("enum_level_bound_attribute".into());
    }
    if vars.iter().any(|v| v.own.is_some() && v.rename.is_some()) {
        labels.push("variant_own_format_and_rename_all".into());
    }
    if has_shared && shared.pos.iter().chain(shared.named.iter().map(|(_, e)| e)).any(|e| e != "_variant" && !e.chars().all(|c| c.is_alphanumeric() || c == '_')) {
        labels.push("shared_expression_argument".into());
    }
    let with = vars.iter().filter(|v| v.own.is_some()).count();
    if with > 0 && with < vars.len() {
        labels.push("mixed_own_attribute".into());
    }
    if vars.iter().any(|v| v.fields.is_empty()) {
        labels.push("has_fieldless_variant".into());
    }
    if vars.iter().any(|v| v.fields.len() > 1) {
        labels.push("has_multi_field_variant".into());
    }
    if vars.iter().any(|v| v.own_substitutable) {
        labels.push("own_attribute_substitutable".into());
    }
    if vars.iter().any(|v| v.raw) {
        labels.push("raw_variant_ident".into());
    }
    if rename_all.is_some() {
        labels.push("rename_all_on_enum".into());
    }
    if vars.iter().any(|v| v.rename.is_some()) {
        labels.push("rename_all_on_variant".into());
    }
    if (rename_all.is_some() || vars.iter().any(|v| v.rename.is_some())) && vars.iter().any(|v| v.fields.is_empty() && v.own.is_none()) && matches!(mode, Mode::Wrap | Mode::Transparent) {
        labels.push("renamed_name_wrapped".into());
    }
    if mode == Mode::Default && vars.iter().any(|v| v.own.is_none() && (v.fields.len() > 1 || (v.fields.len() == 1 && !supports(v.fields[0].kind, tr_ty)))) {
        labels.push("default_covers_unformattable_variant".into());
    }
    let unit_default_nondisplay = !is_display && vars.iter().any(|v| v.fields.is_empty() && v.own.is_none());
    if unit_default_nondisplay {
        labels.push("fieldless_variant_default_nondisplay".into());
    }
    let ptr_implicit: Vec<String> = if tr == "Pointer" && matches!(mode, Mode::Wrap | Mode::Transparent) {
        vars.iter().filter(|v| v.own.is_none() && v.fields.len() == 1).map(|v| v.name.clone()).collect()
    } else {
        vec![]
    };
    if !ptr_implicit.is_empty() {
        labels.push("pointer_implicit_field_wrapped".into());
    }
    EnumModel { gk, attr_order, enum_bound, tr, attr, tr_ty, mode, rename_all, shared: has_shared.then_some(shared), vars, labels, unit_default_nondisplay, ptr_implicit }
}

impl EnumModel {
    fn type_def(&self, derive: &str) -> String {
        let attr = self.attr;
        let mut s = format!("#[derive({derive})]\n");
        let bound = format!("#[{attr}(bound(i32: Copy))]\n");
        if self.enum_bound == Some(0) {
            s.push_str(&bound);
        }
        let fmt = self.shared.as_ref().map(|sh| format!("#[{attr}({})]\n", sh.attr_args())).unwrap_or_default();
        let ren = self.rename_all.map(|c| format!("#[{attr}(rename_all = \"{c}\")]\n")).unwrap_or_default();
        if self.attr_order == 1 {
            s.push_str(&ren);
            s.push_str(&fmt);
        } else {
            s.push_str(&fmt);
            s.push_str(&ren);
        }
        if self.enum_bound == Some(1) {
            s.push_str(&bound);
        }
        s.push_str(if self.gk.is_some() { "pub enum T<G> {\n" } else { "pub enum T {\n" });
        for v in &self.vars {
            // a variant's own rename_all is written before or after its own format
            let ren_first = v.own.is_some() && v.rename.is_some() && v.name.len() % 2 == 0;
            if let (true, Some(c)) = (ren_first, v.rename) {
                s.push_str(&format!("    #[{attr}(rename_all = \"{c}\")]\n"));
            }
            if let Some(o) = &v.own {
                s.push_str(&format!("    #[{attr}({})]\n", o.attr_args()));
            }
            if let (false, Some(c)) = (ren_first, v.rename) {
                s.push_str(&format!("    #[{attr}(rename_all = \"{c}\")]\n"));
            }
            s.push_str(&format!("    {},\n", v.decl()));
        }
        s.push_str("}\n");
        s
    }

    /// the text the variant prints by itself, as an expression over the variant's bindings
    fn own_expr(&self, v: &Var) -> Option<String> {
        if let Some(o) = &v.own {
            return Some(o.ref_call());
        }
        match v.fields.len() {
            0 if self.tr_ty.is_empty() => {
                let name = match v.rename.or(self.rename_all) {
                    Some(c) => casing(&v.words, c),
                    None => v.name.clone(),
                };
                Some(format!("{name:?}.to_string()"))
            }
            1 if supports(v.fields[0].kind, self.tr_ty) => {
                let ph = if self.tr_ty.is_empty() { "{}".to_string() } else { format!("{{:{}}}", self.tr_ty) };
                Some(format!("format!(\"{ph}\", *{})", v.fields[0].name))
            }
            _ => None,
        }
    }

    fn program(&self) -> String {
        let mut s = self.type_def(&format!("derive_more::{}", self.tr));
        let mut own_arms = String::new();
        let mut ref_arms = String::new();
        for v in &self.vars {
            let own = self.own_expr(v);
            own_arms.push_str(&format!("            {} => {},\n", v.pat(), own.clone().unwrap_or_else(|| "unreachable!(\"no format of its own\")".into())));
            let shared_call = self.shared.as_ref().map(|sh| sh.ref_call());
            let e = match self.mode {
                Mode::NoShared => "self.__own()".to_string(),
                Mode::Transparent | Mode::Wrap => format!("{{ let _variant: String = self.__own(); {} }}", shared_call.unwrap()),
                Mode::Default => {
                    if v.own.is_some() {
                        "self.__own()".to_string()
                    } else {
                        shared_call.unwrap()
                    }
                }
            };
            ref_arms.push_str(&format!("            {} => {e},\n", v.pat()));
        }
        let outer = if self.tr_ty.is_empty() { "{}".to_string() } else { format!("{{:{}}}", self.tr_ty) };
        match self.gk {
            Some(k) => s.push_str(&format!("pub type TT = T<{}>;\n", k.ty())),
            None => s.push_str("pub type TT = T;\n"),
        }
        let tag_impl = if self.gk.is_some() { "impl<G> T<G> {\n    pub fn tag(&self) -> u32 { 7 }\n}\n" } else { "impl T {\n    pub fn tag(&self) -> u32 { 7 }\n}\n" };
        s.push_str(&format!(
            "{tag_impl}impl TT {{\n    /// what the variant prints by itself\n    pub fn __own(&self) -> String {{\n        match self {{\n{own_arms}        }}\n    }}\n    /// the documented rule for the enum-level format\n    pub fn __ref(&self) -> String {{\n        match self {{\n{ref_arms}        }}\n    }}\n}}\n"
        ));
        s.push_str("pub fn run(o: &mut Out) {\n");
        for v in &self.vars {
            s.push_str(&format!("    {{ let v: TT = {}; o.eq(\"variant {}\", &v.__ref(), &format!(\"{outer}\", v)); }}\n", v.ctor(&v.values), v.name));
            if !v.fields.is_empty() && v.values2 != v.values {
                s.push_str(&format!("    {{ let v: TT = {}; o.eq(\"variant {}\", &v.__ref(), &format!(\"{outer}\", v)); }}\n", v.ctor(&v.values2), v.name));
            }
        }
        s.push_str("}\n");
        s
    }

    fn nontrivial(&self) -> bool {
        let with = self.vars.iter().filter(|v| v.own.is_some()).count();
        with > 0 && with < self.vars.len() && self.shared.as_ref().is_some_and(|s| s.has_text())
    }

    fn meta(&self) -> Value {
        json!({
            "trait": self.tr,
            "mode": self.mode.name(),
            "shared": self.shared.as_ref().map(|s| s.attr_args()),
            "unit_default_nondisplay": self.unit_default_nondisplay,
            "ptr_implicit": self.ptr_implicit,
        })
    }
}

fn pick_trait(d: &mut Dice) -> (&'static str, &'static str, &'static str) {
    DTRAITS[d.weighted(&[50, 8, 7, 7, 7, 7, 7, 7])]
}

fn build_positive(d: &mut Dice) -> GenCase {
    let tr = pick_trait(d);
    let mode = [Mode::Wrap, Mode::Default, Mode::Transparent, Mode::NoShared][d.weighted(&[46, 36, 12, 6])];
    let m = gen_enum(d, tr, mode);
    let mut c = GenCase::new(m.program());
    c.labels = m.labels.clone();
    c.labels.sort();
    c.labels.dedup();
    c.nontrivial = m.nontrivial();
    c.meta = m.meta();
    c
}

// ------------------------------------------------------------------------------------------------
// rejection clauses

const ALIGNS: [&str; 7] = ["", "<", "^", ">", "*<", "0^", "é>"];
const SIGNS: [&str; 3] = ["", "+", "-"];
const WIDTHS: [&str; 3] = ["", "7", "12"];
const PRECS: [&str; 3] = ["", ".3", ".0"];

/// every format spec built from the grid (the empty one excluded): 7 x 3 x 2 x 2 x 3 x 3 x 11 - 1
pub fn spec_grid() -> Vec<String> {
    let mut out = vec![];
    for a in ALIGNS {
        for s in SIGNS {
            for alt in ["", "#"] {
                for z in ["", "0"] {
                    for w in WIDTHS {
                        for p in PRECS {
                            for t in TYPES {
                                let sp = format!("{a}{s}{alt}{z}{w}{p}{t}");
                                if !sp.is_empty() {
                                    out.push(sp);
                                }
                            }
                        }
                    }
                }
            }
        }
    }
    out
}

/// single-modifier specs and every non-Display type, plus the parameterised counts
const SINGLE_SPECS: [&str; 21] = ["<", "^", ">", "*<", "+", "-", "#", "0", "7", ".3", "?", "x?", "X?", "o", "x", "X", "p", "b", "e", "E", ">8"];

/// A small enum whose enum-level literal carries `spec` on its `_variant` placeholder, in one of the three
/// ways of mentioning `_variant`; `spec == ""` gives the accepted twin.
fn spec_item(tr: &str, attr: &str, tr_ty: &str, form: usize, spec: &str, extra_args: &str) -> String {
    let colon = if spec.is_empty() { String::new() } else { format!(":{spec}") };
    let shared = match form {
        0 => format!("\"<{{_variant{colon}}}>\"{extra_args}"),
        1 => format!("\"<{{0{colon}}}>\", _variant{extra_args}"),
        _ => format!("\"<{{v{colon}}}>\", v = _variant{extra_args}"),
    };
    let ph = if tr_ty.is_empty() { "{_0}".to_string() } else { format!("{{_0:{tr_ty}}}") };
    format!(
        "#[derive(derive_more::{tr})]\n#[{attr}({shared})]\npub enum T {{\n    #[{attr}(\"A {ph}\")]\n    A(i32),\n    B(u8),\n    #[{attr}(\"c\")]\n    C,\n}}\n"
    )
}

fn negative_case(body: String, labels: Vec<String>, meta: Value) -> GenCase {
    let derive = if body.contains("derive_more::Debug") { "Debug".to_string() } else { DTRAITS.iter().find(|t| body.contains(&format!("derive(derive_more::{})", t.0))).map_or("Display", |t| t.0).to_string() };
    let e1 = e1_label(&derive, &body);
    let mut c = GenCase::new(body);
    c.expect_compile = false;
    c.runnable = false;
    c.labels = labels;
    c.labels.push(e1);
    c.labels.push("negative".into());
    c.nontrivial = true;
    c.meta = meta;
    c
}

fn random_spec(d: &mut Dice) -> String {
    let sp = format!(
        "{}{}{}{}{}{}{}",
        ALIGNS[d.pick(ALIGNS.len())],
        SIGNS[d.weighted(&[6, 2, 1])],
        if d.chance(25) { "#" } else { "" },
        if d.chance(25) { "0" } else { "" },
        WIDTHS[d.weighted(&[5, 3, 2])],
        PRECS[d.weighted(&[6, 2, 1])],
        TYPES[d.weighted(&[8, 2, 1, 1, 1, 1, 1, 1, 1, 1, 1])],
    );
    if sp.is_empty() {
        // all dice were zero: the simplest rejected spec
        ">".into()
    } else {
        sp
    }
}

/// How the working-tree expander itself treats a negative item (label only; rustc's verdict decides).
fn e1_label(derive: &str, item: &str) -> String {
    let Some(dv) = dm::Derive::by_name(derive) else { return "neg_e1=unknown_derive".into() };
    match dm::expand_src(dv, item) {
        Ok(dm::Outcome::Err(m)) if m.contains("_variant") || m.contains("not allowed on enum") => "neg_e1=rejected_for_stated_reason".into(),
        Ok(dm::Outcome::Err(_)) => "neg_e1=rejected_other_reason".into(),
        Ok(dm::Outcome::Ok(_)) => "neg_e1=accepted".into(),
        Ok(dm::Outcome::Panic(_)) => "neg_e1=panic".into(),
        Err(_) => "neg_e1=unparsable".into(),
    }
}

fn build_negative(d: &mut Dice) -> GenCase {
    if d.chance(30) {
        // enum-level format on Debug (any content): generated like the Display-like enums, attribute `debug`
        let mode = [Mode::Default, Mode::Wrap, Mode::Transparent][d.weighted(&[5, 3, 2])];
        let m = gen_enum(d, ("Debug", "debug", "?"), mode);
        let mut labels = vec!["neg=debug_enum_level".to_string(), format!("neg_debug_mode={}", mode.name())];
        if m.vars.iter().any(|v| v.own.is_some()) {
            labels.push("neg_debug_with_variant_attributes".into());
        }
        return negative_case(m.type_def("derive_more::Debug"), labels, json!({"neg": "debug", "shared": m.shared.as_ref().map(|s| s.attr_args())}));
    }
    // a wrapping (or transparent) enum of the positive generator with a specifier on one `_variant` placeholder
    let tr = pick_trait(d);
    let mode = if d.chance(80) { Mode::Wrap } else { Mode::Transparent };
    let mut m = gen_enum(d, tr, mode);
    let spec = random_spec(d);
    let sh = m.shared.as_mut().unwrap();
    // the placeholders that stand for `_variant`
    let idx: Vec<usize> = sh
        .pieces
        .iter()
        .enumerate()
        .filter(|(_, p)| match p {
            Piece::Ph(ph) => match &ph.arg {
                Arg::Name(n) => n == "_variant" || sh.named.iter().any(|(a, e)| a == n && e == "_variant"),
                Arg::Index(i) => sh.pos.get(*i).is_some_and(|e| e == "_variant"),
                Arg::Implicit => false,
            },
            _ => false,
        })
        .map(|(i, _)| i)
        .collect();
    // implicit placeholders: resolve through the counter
    let mut implicit_idx = vec![];
    let mut counter = 0;
    for (i, p) in sh.pieces.iter().enumerate() {
        if let Piece::Ph(ph) = p {
            if ph.arg == Arg::Implicit {
                if sh.pos.get(counter).is_some_and(|e| e == "_variant") {
                    implicit_idx.push(i);
                }
                counter += 1;
            }
        }
    }
    let all: Vec<usize> = idx.into_iter().chain(implicit_idx).collect();
    if all.is_empty() {
        return negative_case(spec_item(m.tr, m.attr, m.tr_ty, 0, &spec, ""), vec!["neg=variant_spec".into()], json!({"neg": "spec", "spec": spec}));
    }
    let k = all[d.pick(all.len())];
    let form = if let Piece::Ph(ph) = &mut sh.pieces[k] {
        // a raw spec string is carried in the `ty` slot of the model (rendered verbatim)
        ph.spec = Spec::bare(&spec);
        match &ph.arg {
            Arg::Name(n) if n == "_variant" => "placeholder",
            Arg::Name(_) => "alias",
            _ => "positional",
        }
    } else {
        unreachable!()
    };
    let only_type = TYPES.contains(&spec.as_str());
    let labels = vec![
        "neg=variant_spec".to_string(),
        format!("neg_form={form}"),
        format!("neg_trait={}", m.tr),
        if only_type { "neg_spec=type_only".to_string() } else { "neg_spec=modifiers".to_string() },
    ];
    negative_case(m.type_def(&format!("derive_more::{}", m.tr)), labels, json!({"neg": "spec", "spec": spec, "form": form}))
}

fn build(d: &mut Dice) -> GenCase {
    if d.chance(10) {
        build_negative(d)
    } else {
        build_positive(d)
    }
}

/// the systematic part: every single-modifier spec / non-Display type x the three ways of mentioning
/// `_variant` x two derived traits must be rejected, the spec-less twins must compile and print the rule's
/// text; enum-level `#[debug("...")]` in a few shapes must be rejected.
fn fixed() -> Vec<GenCase> {
    let mut out = vec![];
    for (tr, attr, tr_ty) in [DTRAITS[0], DTRAITS[1]] {
        for form in 0..3 {
            let form_name = ["placeholder", "positional", "alias"][form];
            for spec in SINGLE_SPECS {
                out.push(negative_case(
                    spec_item(tr, attr, tr_ty, form, spec, ""),
                    vec!["neg=variant_spec".into(), "fixed".into(), format!("neg_form={form_name}"), format!("neg_trait={tr}")],
                    json!({"neg": "spec", "spec": spec, "form": form_name}),
                ));
            }
            // counts taken from arguments
            for (spec, extra) in [("w$", ", w = 5"), (".p$", ", p = 2"), ("1$", ", 5"), (".*", "")] {
                if spec == "1$" && form == 2 {
                    continue; // a positional argument cannot follow `v = _variant`
                }
                let body = if spec == ".*" {
                    // `.*` takes the precision from the next positional argument
                    let ph = if tr_ty.is_empty() { "{_0}".to_string() } else { format!("{{_0:{tr_ty}}}") };
                    let shared = match form {
                        0 => "\"<{_variant:.*}>\", 3".to_string(),
                        1 => "\"<{:.*}>\", 3, _variant".to_string(),
                        _ => "\"<{v:.*}>\", 3, v = _variant".to_string(),
                    };
                    format!("#[derive(derive_more::{tr})]\n#[{attr}({shared})]\npub enum T {{\n    #[{attr}(\"A {ph}\")]\n    A(i32),\n    B(u8),\n}}\n")
                } else if spec == "1$" && form == 1 {
                    spec_item(tr, attr, tr_ty, form, spec, extra)
                } else if spec == "1$" {
                    // positional width parameter: index 0 is the only positional argument here
                    spec_item(tr, attr, tr_ty, form, "0$", extra)
                } else {
                    spec_item(tr, attr, tr_ty, form, spec, extra)
                };
                out.push(negative_case(
                    body,
                    vec!["neg=variant_spec".into(), "fixed".into(), "neg_spec=count_parameter".into(), format!("neg_form={form_name}")],
                    json!({"neg": "spec", "spec": spec, "form": form_name}),
                ));
            }
            // the accepted twin
            let ph = |v: i32| if tr_ty.is_empty() { format!("{v}") } else { format!("{v:x}") };
            let mut c = GenCase::new(format!(
                "{}pub fn run(o: &mut Out) {{\n    o.eq(\"variant A\", {:?}, &format!(\"{{:{tr_ty}}}\", T::A(17)));\n    o.eq(\"variant B\", {:?}, &format!(\"{{:{tr_ty}}}\", T::B(200)));\n    o.eq(\"variant C\", \"<c>\", &format!(\"{{:{tr_ty}}}\", T::C));\n}}\n",
                spec_item(tr, attr, tr_ty, form, "", ""),
                format!("<A {}>", ph(17)),
                format!("<{}>", ph(200)),
            ));
            c.labels = vec!["fixed".into(), "accepted_twin".into(), format!("trait={tr}")];
            c.nontrivial = true;
            out.push(c);
        }
    }
    for (lit, variants) in [
        ("\"Test\"", "Unit"),
        ("\"Test\"", "A(i32), B { b: u8 }"),
        ("\"{_variant}\"", "A(i32), Unit"),
        ("\"<{_variant}>\"", "#[debug(\"a\")] A(i32), #[debug(\"u\")] Unit"),
        ("\"{_0}\"", "A(i32), B(u8)"),
        ("\"{}\", _0", "A(i32)"),
        ("\"{_0:?}\"", "A(i32), #[debug(\"{_0:?}\")] B(u8)"),
        ("\"\"", "Unit"),
    ] {
        out.push(negative_case(
            format!("#[derive(derive_more::Debug)]\n#[debug({lit})]\npub enum T {{ {variants} }}\n"),
            vec!["neg=debug_enum_level".into(), "fixed".into()],
            json!({"neg": "debug"}),
        ));
    }
    out
}

// ------------------------------------------------------------------------------------------------
// defect models

/// `0x…` addresses replaced by a fixed token
fn mask_addresses(s: &str) -> String {
    let b: Vec<char> = s.chars().collect();
    let mut out = String::new();
    let mut i = 0;
    while i < b.len() {
        if b[i] == '0' && i + 1 < b.len() && b[i + 1] == 'x' && i + 2 < b.len() && b[i + 2].is_ascii_hexdigit() {
            let mut j = i + 2;
            // two addresses may be adjacent: a `0x` inside the run starts the next one
            while j < b.len() && b[j].is_ascii_hexdigit() && !(b[j] == '0' && j + 1 < b.len() && b[j + 1] == 'x') {
                j += 1;
            }
            out.push_str("0x@");
            i = j;
        } else {
            out.push(b[i]);
            i += 1;
        }
    }
    out
}

fn classify(c: &GenCase, r: &CaseResult, f: &Finding) -> Option<String> {
    if !c.expect_compile {
        return None;
    }
    if !r.compiled {
        // Field-less variant without own attribute under a non-Display trait, enum-level default present: the
        // defect predicts exactly the "implicit formatting of unit enum variant" diagnostic, plus rustc's
        // follow-up about the trait impl that consequently does not exist.
        if c.meta["unit_default_nondisplay"].as_bool() == Some(true) && c.meta["mode"] == "default" {
            let tr = c.meta["trait"].as_str().unwrap_or("?");
            let primary = r.errors.iter().filter(|e| e.message.contains(UNIT_MSG)).count();
            let rest_ok = r.errors.iter().all(|e| e.message.contains(UNIT_MSG) || (e.code.as_deref() == Some("E0277") && e.message.contains(tr)));
            if primary > 0 && rest_ok {
                return Some(SIG_UNIT_DEFAULT.into());
            }
        }
        return None;
    }
    // Wrapping enum-level format under `Pointer`, variant printing its single field by itself: the defect
    // predicts the address of the `&field` binding instead of the field's own address, everything else equal.
    if let Some(name) = f.summary.strip_prefix("run-time oracle failed: variant ") {
        let listed = c.meta["ptr_implicit"].as_array().is_some_and(|a| a.iter().any(|n| n.as_str() == Some(name)));
        if listed && c.meta["trait"] == "Pointer" && f.expected != f.observed && mask_addresses(&f.expected) == mask_addresses(&f.observed) && f.expected.contains("0x") {
            return Some(SIG_PTR_WRAP.into());
        }
    }
    None
}

const RULE: &str = "enums (1..5 variants: unit, empty tuple/brace, one field, 2..3 fields, tuple or named, raw idents; with/without own attribute, own attribute substitutable or not; rename_all on enum/variant) deriving one of the 8 Display-like traits x enum-level format in 4 modes: wrapping (1..3 mentions of `_variant` as `{_variant}`, positional argument, `alias = _variant`, mixed with text, escapes and references to fields common to all variants incl. expressions), default (no `_variant`; fields common to the attribute-less variants; also a literal that is exactly one bare placeholder of the derived trait over a non-field argument), bare `_variant` only, none; the word `_variant` as plain text / inside escaped braces (not a mention); `self` in the enum-level arguments; the enum optionally generic over the type of some fields (`T<G>`, referred to directly only), rename_all written before the enum-level format, an enum-level bound(..) attribute, a variant with own format and own rename_all. Oracle inside the program: own(v) = own attribute via format! | single field under the derived trait | (renamed) name; expected = format!(SHARED, .., _variant = own(v)) when `_variant` is mentioned, else SHARED for attribute-less variants and own(v) for the others; byte-equal to the derived output for one value per variant. Negative cases: `_variant` placeholder with any spec / non-Display type (systematic single-modifier table x 3 forms x 2 traits, plus random multi-modifier specs on generated enums) and enum-level format on derive_more::Debug must be rejected by the compiler; in-process screen of the full spec grid with rustc confirmation. Non-trivial = enum has a variant with and one without own attribute and the enum-level literal has text besides placeholders (or a negative case); distinct by program text";

pub fn prop() -> DiceProp {
    DiceProp {
        crate_name: "gen_c07",
        prelude: PRELUDE.to_string(),
        crate_attrs: String::new(),
        nightly: false,
        check_only: false,
        ndice: 420,
        quick: (4000, 1),
        thorough: (6000, 6),
        build,
        fixed,
        classify,
        rule: RULE.into(),
        assumptions: vec![
            "plain format! of the same toolchain is the reference".into(),
            "a field-less variant without own attribute under a non-Display trait is generated only together with an enum-level default (the docs restrict implicit unit names to Display)".into(),
        ],
        floors: vec![
            ("mode=wrap".into(), 0.28),
            ("mode=default".into(), 0.2),
            ("mode=transparent".into(), 0.05),
            ("mixed_own_attribute".into(), 0.3),
            ("variant_via_placeholder".into(), 0.2),
            ("variant_via_positional".into(), 0.1),
            ("variant_via_alias".into(), 0.1),
            ("shared_refs_field".into(), 0.12),
            ("has_fieldless_variant".into(), 0.2),
            ("has_multi_field_variant".into(), 0.2),
            ("renamed_name_wrapped".into(), 0.02),
            ("neg=variant_spec".into(), 0.05),
            ("neg=debug_enum_level".into(), 0.02),
            ("shared_escaped_variant_braces".into(), 0.025),
            ("default_mode_with_variant_word_as_text".into(), 0.02),
            ("shared_uses_self".into(), 0.03),
            ("generic_enum".into(), 0.04),
            ("generic_enum_shared_names_generic_field".into(), 0.006),
            ("enum_rename_all_before_format".into(), 0.02),
            ("enum_level_bound_attribute".into(), 0.03),
            ("variant_own_format_and_rename_all".into(), 0.008),
        ],
        shards: 0,
    }
}

/// In-process screen of the rejection clause over the whole spec grid: whatever the expander does not reject
/// itself is handed to rustc (negative shard); only a program that really compiles is a violation.
fn e1_screen(ctx: &Ctx, rep: &mut Report) {
    let grid = spec_grid();
    let traits: &[(&str, &str, &str)] = if ctx.tier == Tier::Quick { &DTRAITS[..2] } else { &DTRAITS[..] };
    let mut rejected = 0u64;
    let mut panicked = 0u64;
    let mut total = 0u64;
    let mut candidates: Vec<(String, String)> = vec![];
    for (tr, attr, tr_ty) in traits {
        let Some(derive) = dm::Derive::by_name(tr) else { continue };
        for form in 0..3 {
            for spec in &grid {
                let src = spec_item(tr, attr, tr_ty, form, spec, "");
                let item = src.replacen(&format!("#[derive(derive_more::{tr})]\n"), "", 1);
                total += 1;
                match dm::expand_src(derive, &item) {
                    Ok(dm::Outcome::Err(_)) => rejected += 1,
                    Ok(dm::Outcome::Panic(_)) => panicked += 1,
                    Ok(dm::Outcome::Ok(_)) => candidates.push((src, format!("{tr} form {form} spec `{spec}`"))),
                    Err(e) => {
                        rep.infra_errors.push(format!("C07 screen: generated item does not parse: {e}"));
                        return;
                    }
                }
            }
        }
    }
    // enum-level format on Debug
    let debug = dm::Derive::by_name("Debug").unwrap();
    let lits = ["\"Test\"", "\"{_variant}\"", "\"<{_variant}>\"", "\"{_0}\"", "\"{}\", _0", "\"{_0:?} {}\", _0", "\"\"", "\"{{}}\""];
    let bodies = ["Unit", "A(i32)", "A(i32), B(i32, u8)", "#[debug(\"a\")] A(i32), Unit", "A { a: i32 }", "#[debug(\"{a}\")] A { a: i32 }, #[debug(skip)] B(i32)"];
    for l in lits {
        for b in bodies {
            let item = format!("#[debug({l})]\npub enum T {{ {b} }}\n");
            total += 1;
            match dm::expand_src(debug, &item) {
                Ok(dm::Outcome::Err(_)) => rejected += 1,
                Ok(dm::Outcome::Panic(_)) => panicked += 1,
                Ok(dm::Outcome::Ok(_)) => candidates.push((format!("#[derive(derive_more::Debug)]\n{item}"), format!("Debug enum-level {l} on {{ {b} }}"))),
                Err(e) => {
                    rep.infra_errors.push(format!("C07 screen: generated item does not parse: {e}"));
                    return;
                }
            }
        }
    }
    rep.evidence.set(
        "inprocess_rejection_screen",
        json!({"items": total, "rejected_by_expander": rejected, "expander_panicked": panicked, "accepted_by_expander": candidates.len(),
               "grid": "7 fill/align x 3 sign x # x 0 x 3 widths x 3 precisions x 11 types (minus the empty spec) x 3 ways of mentioning _variant x traits; 8 literals x 6 enum bodies for Debug"}),
    );
    if candidates.is_empty() {
        return;
    }
    // confirmation through rustc: spread over the candidate list, bounded
    let step = (candidates.len() / 24).max(1);
    let picked: Vec<&(String, String)> = candidates.iter().step_by(step).take(24).collect();
    let srcs: Vec<CaseSrc> = picked.iter().map(|(s, _)| CaseSrc { body: s.clone(), runnable: false, negative: true }).collect();
    let spec = ProgSpec { name: "gen_c07_screen".into(), prelude: PRELUDE.to_string(), crate_attrs: String::new(), nightly: false, check_only: true, shards: 1 };
    match build_and_run(ctx, &spec, &srcs) {
        Ok(built) => {
            rep.infra_errors.extend(built.infra.clone());
            for ((src, what), r) in picked.iter().zip(built.results.iter()) {
                if r.compiled {
                    let case = negative_case(src.clone(), vec!["screen".into()], json!({"neg": "screen"}));
                    rep.violations.push(Violation {
                        sig: None,
                        summary: format!("input must be rejected with a compile error but it compiles ({what})"),
                        case: serde_json::to_value(&case).unwrap_or(Value::Null),
                        expected: "compile error".into(),
                        observed: "compiles".into(),
                    });
                }
            }
        }
        Err(e) => rep.infra_errors.push(e),
    }
}

/// The generated inputs that must be rejected are additionally expanded in-process: the rejection has to come from
/// the derive itself, not from an accident of the generated program (rustc failing for some other reason).
fn confirm_negatives_inproc(p: &DiceProp, ctx: &Ctx, rep: &mut Report) {
    use proptest::strategy::ValueTree;
    let strat = ProgProp::strategy(p, ctx);
    let (n, _) = ProgProp::budget(p, ctx.tier);
    let mut runner = ctx.runner(0);
    let mut cases: Vec<GenCase> = (p.fixed)();
    cases.extend(draw(&mut runner, &strat, n).into_iter().map(|t| t.current()));
    let mut seen = std::collections::HashSet::new();
    let (mut confirmed, mut reported) = (0u64, 0u64);
    for c in cases {
        if c.expect_compile || !seen.insert(c.body.clone()) {
            continue;
        }
        if c.labels.iter().any(|l| l == "neg_e1=rejected_for_stated_reason" || l == "neg_e1=rejected_other_reason") {
            confirmed += 1;
            continue;
        }
        let how = c.labels.iter().find(|l| l.starts_with("neg_e1=")).cloned().unwrap_or_else(|| "neg_e1=?".into());
        reported += 1;
        if reported <= 3 {
            rep.violations.push(Violation {
                sig: None,
                summary: format!("an input that must be rejected is not rejected by the derive itself ({how}); the compiler's verdict on the program would be an accident"),
                case: serde_json::to_value(&c).unwrap_or(Value::Null),
                expected: "a diagnostic from the derive".into(),
                observed: how,
            });
        }
    }
    rep.evidence.add("negatives_confirmed_inproc", confirmed);
}

pub fn run(ctx: &Ctx) -> Report {
    let p = prop();
    let mut rep = super::progprop::run(&p, ctx);
    confirm_negatives_inproc(&p, ctx, &mut rep);
    e1_screen(ctx, &mut rep);
    rep
}

pub fn replay(ctx: &Ctx, case: &Value) -> Report {
    super::progprop::replay(&prop(), ctx, case)
}

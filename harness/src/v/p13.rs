//! C13 — FromStr: newtypes delegate to the field (value and error unchanged); field-less enums match variant
//! names ignoring case unless that is ambiguous, then exactly; every other string is a `FromStrError` naming
//! the enum.
//!
//! The oracle lives in the prelude of the generated crate: `rule()` is a reference implementation of the
//! documented matching rule over the *names* of the variants (a raw identifier's name has no `r#`), and the
//! checkers enumerate the strings inside the program: exhaustively all strings up to a length bound over the
//! letters of each name in both cases plus `_ - space #`, every case pattern of every name, one-edit
//! neighbours, prefixes/suffixes/concatenations, whitespace-padded names and seeded random strings incl.
//! multi-byte characters. Newtypes are compared with `s.parse::<Inner>().map(N)` incl. the error value.
use super::core::*;
use super::proggen::CaseResult;
use super::progprop::*;
use serde_json::json;

pub const SIG_RAW: &str = "c13-raw-ident-variant-name";
pub const SIG_EMPTY: &str = "c13-empty-fields-variant";

/// Candidate defect (reported, not repaired yet): the `FromStrError` of an enum declared with a raw identifier
/// (`enum r#Type`) reads "Invalid `r#Type` string representation" (impl/src/from_str.rs: `input_type.to_string()`
/// keeps the `r#`), although the enum's name is `Type`. While `true`, enums are not given a raw-identifier name.
const AVOID_RAW_ENUM_NAME_IN_ERROR: bool = false;

const PRELUDE: &str = r##"
use core::str::FromStr;
use core::fmt::Debug;

/// Case mapping used by the reference rule: ASCII letters plus a few non-ASCII letters whose upper and lower
/// case forms correspond one to one (so "ignoring case" is unambiguous for every generated name).
pub const PAIRS: [(char, char); 4] = [('É', 'é'), ('Ä', 'ä'), ('Ø', 'ø'), ('Ü', 'ü')];
pub fn lower(c: char) -> char { if c.is_ascii() { c.to_ascii_lowercase() } else { PAIRS.iter().find(|p| p.0 == c).map(|p| p.1).unwrap_or(c) } }
pub fn upper(c: char) -> char { if c.is_ascii() { c.to_ascii_uppercase() } else { PAIRS.iter().find(|p| p.1 == c).map(|p| p.0).unwrap_or(c) } }
pub fn is_lower(c: char) -> bool { lower(c) == c && upper(c) != c }
pub fn ci_eq(a: &str, b: &str) -> bool { a.chars().count() == b.chars().count() && a.chars().zip(b.chars()).all(|(x, y)| lower(x) == lower(y)) }

/// Reference implementation of the documented rule: index of the variant `s` parses to.
pub fn rule(names: &[&str], s: &str) -> Option<usize> {
    for (i, n) in names.iter().enumerate() {
        let ambiguous = names.iter().enumerate().any(|(j, m)| j != i && ci_eq(m, n));
        let hit = if ambiguous { s == *n } else { ci_eq(s, n) };
        if hit { return Some(i); }
    }
    None
}

pub struct Lcg(pub u64);
impl Lcg {
    pub fn next(&mut self) -> u64 {
        self.0 = self.0.wrapping_mul(6364136223846793005).wrapping_add(1442695040888963407);
        self.0 >> 33
    }
    pub fn below(&mut self, n: usize) -> usize { if n == 0 { 0 } else { (self.next() % n as u64) as usize } }
}

fn all_strings(alpha: &[char], max_len: usize, out: &mut Vec<String>) {
    let mut level: Vec<String> = vec![String::new()];
    for _ in 0..max_len {
        let mut next = Vec::with_capacity(level.len() * alpha.len());
        for p in &level { for c in alpha { let mut s = p.clone(); s.push(*c); next.push(s); } }
        out.extend(next.iter().cloned());
        level = next;
    }
}

fn bounded_len(a: usize, cap: usize, max: usize) -> usize {
    let (mut l, mut total, mut pow) = (0usize, 0usize, 1usize);
    while l < max {
        pow = pow.saturating_mul(a);
        if total + pow > cap { break; }
        total += pow; l += 1;
    }
    l
}

fn both_cases(names: &[&str]) -> Vec<char> {
    let mut alpha: Vec<char> = vec![];
    for n in names { for c in n.chars() { for x in [lower(c), upper(c)] { if !alpha.contains(&x) { alpha.push(x); } } } }
    for c in ['_', '-', ' ', '#'] { if !alpha.contains(&c) { alpha.push(c); } }
    alpha
}

/// multi-byte characters whose lower-case form contains no ASCII letter (so "ignoring case" is unambiguous)
/// `ı` (dotless i) is its own lower-case form and its case folding, only its *upper*-case form is the ASCII `I`: a string
/// with `ı` in the place of an `i` never equals the name ignoring case (seed C13-l canonicalised by upper-casing)
pub const WIDE: [char; 9] = ['é', 'Ä', 'ß', 'σ', 'Σ', '→', '𝒳', 'ǅ', 'ı'];

pub fn enum_strings(names: &[&str], seed: u64) -> (Vec<String>, usize) {
    let mut out: Vec<String> = vec![String::new()];
    // (1) exhaustive: per name over its own letters, and over the letters of all names
    let mut exhaustive = 1usize;
    for n in names {
        let alpha = both_cases(&[*n]);
        let l = bounded_len(alpha.len(), 6000, 4);
        let before = out.len();
        all_strings(&alpha, l, &mut out);
        exhaustive += out.len() - before;
    }
    let alpha = both_cases(names);
    {
        let l = bounded_len(alpha.len(), 6000, 4);
        let before = out.len();
        all_strings(&alpha, l, &mut out);
        exhaustive += out.len() - before;
    }
    // (2) every case pattern of every name (first 8 letters), also behind `r#` / `R#`
    for n in names {
        let chars: Vec<char> = n.chars().collect();
        let k = chars.len().min(8);
        for mask in 0u32..(1u32 << k) {
            let s: String = chars.iter().enumerate().map(|(i, c)| if i < k && (mask >> i) & 1 == 1 { if is_lower(*c) { upper(*c) } else { lower(*c) } } else { *c }).collect();
            if mask < 16 { out.push(format!("r#{s}")); out.push(format!("R#{s}")); }
            out.push(s);
        }
    }
    // (3) one-edit neighbours, prefixes, suffixes, concatenations, padding
    for n in names {
        let chars: Vec<char> = n.chars().collect();
        for i in 0..=chars.len() {
            out.push(chars[..i].iter().collect());
            out.push(chars[i..].iter().collect());
            for c in alpha.iter().chain(WIDE.iter()) {
                let mut v = chars.clone(); v.insert(i, *c); out.push(v.iter().collect());
                if i < chars.len() { let mut v = chars.clone(); v[i] = *c; out.push(v.iter().collect()); }
            }
            if i < chars.len() { let mut v = chars.clone(); v.remove(i); out.push(v.iter().collect()); }
        }
        for pad in [" ", "\t", "\n", "\r\n", "\u{a0}", "\0"] {
            out.push(format!("{pad}{n}")); out.push(format!("{n}{pad}")); out.push(format!("{pad}{n}{pad}"));
        }
        for m in names {
            out.push(format!("{n}{m}")); out.push(format!("{n} {m}")); out.push(format!("{n}_{m}")); out.push(format!("{n}::{m}"));
        }
        out.push(format!("E::{n}")); out.push(format!("\"{n}\"")); out.push(n.repeat(2)); out.push(n.repeat(3));
    }
    // (4) seeded random strings up to 24 characters, ASCII of the names and wide characters mixed
    let mut g = Lcg(seed ^ 0x9E3779B97F4A7C15);
    let mut pool: Vec<char> = alpha.clone();
    pool.extend(WIDE.iter().copied());
    pool.extend(['0', '9', '.', ':', '\'', 'z', 'Z']);
    for _ in 0..300 {
        let len = g.below(25);
        out.push((0..len).map(|_| pool[g.below(pool.len())]).collect());
    }
    for _ in 0..(if names.is_empty() { 0 } else { 200 }) {
        // a name with random case and sometimes one foreign character
        let n = names[g.below(names.len())];
        let mut v: Vec<char> = n.chars().map(|c| if g.below(2) == 0 { upper(c) } else { lower(c) }).collect();
        if g.below(3) == 0 { let at = g.below(v.len() + 1); v.insert(at, pool[g.below(pool.len())]); }
        out.push(v.iter().collect());
    }
    (out, exhaustive)
}

fn show(names: &[&str], i: Option<usize>) -> String {
    match i { Some(i) => format!("Ok(variant #{i} `{}`)", names[i]), None => "Err".to_string() }
}

/// `names`: the variants' names; `idents`: the same as written in the source (raw identifiers keep `r#`).
pub fn enum_check<E>(o: &mut Out, enum_name: &str, names: &[&str], idents: &[&str], idx: fn(&E) -> usize, seed: u64)
where E: FromStr<Err = derive_more::FromStrError> {
    let (strings, exhaustive) = enum_strings(names, seed);
    let (mut bad, mut bad_raw, mut bad_msg) = (0usize, 0usize, 0usize);
    let mut judge = |o: &mut Out, what: &str, s: &str| {
        let exp = rule(names, s);
        let got: Result<E, derive_more::FromStrError> = s.parse::<E>();
        let got_idx = got.as_ref().ok().map(idx);
        if exp != got_idx {
            // defect model "the `r#` of a raw identifier is taken as part of the name": does it predict this result?
            if idents != names && rule(idents, s) == got_idx {
                bad_raw += 1;
                if bad_raw <= 4 { o.fail(&format!("[r#-model] {what} {s:?}"), &show(names, exp), &show(names, got_idx)); }
            } else {
                bad += 1;
                if bad <= 8 { o.fail(&format!("{what} {s:?}"), &show(names, exp), &show(names, got_idx)); }
            }
        }
        if let Err(e) = &got {
            let m = e.to_string();
            // the enum's *name*: a raw identifier's `r#` is not part of it
            if !m.contains(enum_name) || m.contains("r#") {
                bad_msg += 1;
                if bad_msg <= 2 { o.fail(&format!("error of parse {s:?} names the enum"), &format!("a message mentioning `{enum_name}`"), &m); }
            }
        }
    };
    // consequence stated by the property: every variant's own name parses back to that variant
    for n in names { judge(o, "own name parses back:", n); }
    for s in &strings { judge(o, "parse", s); }
    o.put("strings", &strings.len().to_string());
    o.put("exhaustive", &exhaustive.to_string());
    o.put("mismatches", &(bad + bad_raw).to_string());
}

// ---- newtypes -----------------------------------------------------------------------------------------

#[derive(Debug, PartialEq, Clone)]
pub struct Cx(pub u32);
#[derive(Debug, PartialEq, Clone)]
pub struct CxErr { pub input: String, pub at: usize }
impl FromStr for Cx {
    type Err = CxErr;
    fn from_str(s: &str) -> Result<Cx, CxErr> {
        match s.strip_prefix("cx:") {
            Some(r) => r.parse::<u32>().map(Cx).map_err(|_| CxErr { input: s.to_string(), at: 3 }),
            None => Err(CxErr { input: s.to_string(), at: 0 }),
        }
    }
}

/// An inherent associated function of the same name and signature with another rule: the derive must go through the
/// `FromStr` trait (`<Cx as FromStr>::from_str`), which is what `s.parse::<Cx>()` — the reference — does.
impl Cx {
    #[allow(clippy::should_implement_trait)]
    pub fn from_str(s: &str) -> Result<Cx, CxErr> { Ok(Cx(s.len() as u32)) }
}

/// a generic wrapper that is `FromStr` whenever its parameter is (newtypes over `Wrap<T>`)
#[derive(Debug, PartialEq, Clone)]
pub struct Wrap<T>(pub T);
impl<T: FromStr> FromStr for Wrap<T> {
    type Err = T::Err;
    fn from_str(s: &str) -> Result<Self, T::Err> {
        // (its own rule, so that delegation to `Wrap<T>` and to `T` differ: one leading `w` is optional)
        s.strip_prefix('w').unwrap_or(s).parse::<T>().map(Wrap)
    }
}
/// a `FromStr` type with a lifetime parameter (newtypes over `Tg<'a>`)
#[derive(Debug, PartialEq, Clone)]
pub struct Tg<'a>(pub u32, pub core::marker::PhantomData<&'a ()>);
impl<'a> FromStr for Tg<'a> {
    type Err = CxErr;
    fn from_str(s: &str) -> Result<Self, CxErr> {
        match s.strip_prefix("cx:") {
            Some(r) => r.parse::<u32>().map(|n| Tg(n, core::marker::PhantomData)).map_err(|_| CxErr { input: s.to_string(), at: 3 }),
            None => Err(CxErr { input: s.to_string(), at: 1 }),
        }
    }
}

pub const BASE: &[&str] = &[
    "", " ", "0", "-0", "+0", "5", "+5", "-5", "5 ", " 5", "\t5", "5\n", "007", "127", "128", "255", "256", "-128", "-129",
    "2147483647", "2147483648", "-2147483648", "-2147483649", "99999999999999999999999999999999999999999", "1e3", "1E3", "1.5", "-1.5", ".5", "5.",
    "NaN", "nan", "inf", "-inf", "infinity", "1e400", "1_000", "0x10", "0b1", "٣", "１", "true", "false", "True", "TRUE", "t", "a", "ab", "é", "𝒳",
    "\n", "'a'", "127.0.0.1", "127.0.0.1 ", "::1", "256.0.0.1", "1.2.3", "[::1]:80", "cx:7", "cx:", "cx:-1", " cx:7", "cx:7 ", "CX:7", "w5", "ww5", "w", "wtrue", "w1.5", "w cx:7", "wcx:7",
];

pub fn newtype_strings(extra: &[&str], seed: u64) -> Vec<String> {
    let mut out: Vec<String> = BASE.iter().map(|s| s.to_string()).collect();
    out.extend(extra.iter().map(|s| s.to_string()));
    for s in BASE.iter().chain(extra.iter()) {
        for pad in [" ", "\n", "\t", "\u{a0}"] { out.push(format!("{pad}{s}")); out.push(format!("{s}{pad}")); }
    }
    let pool: Vec<char> = "0123456789+-._eE xXaAfFtTrRuUlLsSnNiI:[]/c\t\né٣".chars().collect();
    let mut g = Lcg(seed ^ 0xD1B54A32D192ED03);
    for _ in 0..500 {
        let len = g.below(13);
        out.push((0..len).map(|_| pool[g.below(pool.len())]).collect());
    }
    for _ in 0..300 {
        // digits mostly: many successful parses
        let len = 1 + g.below(5);
        let mut s: String = (0..len).map(|_| pool[g.below(10)]).collect();
        match g.below(6) { 0 => s.insert(0, '-'), 1 => s.insert(0, '+'), 2 => s.push(' '), 3 => s = format!("cx:{s}"), _ => {} }
        out.push(s);
    }
    out
}

/// `N` must have exactly the field type's error type (checked by the compiler through the bound).
pub fn newtype_check<N, I>(o: &mut Out, wrap: fn(I) -> N, extra: &[&str], seed: u64)
where
    I: FromStr, <I as FromStr>::Err: Debug + PartialEq,
    N: FromStr<Err = <I as FromStr>::Err> + Debug + PartialEq,
{
    let strings = newtype_strings(extra, seed);
    let (mut bad, mut oks) = (0usize, 0usize);
    for s in &strings {
        let exp: Result<N, <I as FromStr>::Err> = s.parse::<I>().map(wrap);
        let got: Result<N, <I as FromStr>::Err> = s.parse::<N>();
        let same = match (&exp, &got) {
            (Ok(a), Ok(b)) => { oks += 1; a == b || format!("{a:?}") == format!("{b:?}") }
            (Err(a), Err(b)) => a == b && format!("{a:?}") == format!("{b:?}"),
            _ => false,
        };
        if !same {
            bad += 1;
            if bad <= 8 { o.fail(&format!("parse {s:?}"), &format!("{exp:?}"), &format!("{got:?}")); }
        }
    }
    o.put("strings", &strings.len().to_string());
    o.put("ok_parses", &oks.to_string());
    o.put("mismatches", &bad.to_string());
}
"##;

/// Case mapping used by the reference rule: ASCII letters plus a few non-ASCII letters whose upper and lower
/// case forms correspond one to one (so "ignoring case" is unambiguous for every generated name).
const PAIRS: [(char, char); 4] = [('É', 'é'), ('Ä', 'ä'), ('Ø', 'ø'), ('Ü', 'ü')];
fn lower(c: char) -> char { if c.is_ascii() { c.to_ascii_lowercase() } else { PAIRS.iter().find(|p| p.0 == c).map(|p| p.1).unwrap_or(c) } }
fn upper(c: char) -> char { if c.is_ascii() { c.to_ascii_uppercase() } else { PAIRS.iter().find(|p| p.1 == c).map(|p| p.0).unwrap_or(c) } }
fn is_lower(c: char) -> bool { lower(c) == c && upper(c) != c }
fn ci_eq(a: &str, b: &str) -> bool { a.chars().count() == b.chars().count() && a.chars().zip(b.chars()).all(|(x, y)| lower(x) == lower(y)) }
fn lower_s(s: &str) -> String { s.chars().map(lower).collect() }
fn upper_s(s: &str) -> String { s.chars().map(upper).collect() }

/// base words for variant names; keywords may only be written as raw identifiers
const BASES: [&str; 17] = ["A", "Ab", "Foo", "Bar", "Baz", "Ok", "Err", "None", "Http2", "Foo_Bar", "X1", "Request", "Io", "Z", "Élan", "Ärger", "Øü"];
const KEYWORDS: [&str; 8] = ["fn", "type", "match", "loop", "Type", "Fn", "move", "dyn"];

fn case_pattern(d: &mut Dice, w: &str) -> String {
    match d.weighted(&[5, 2, 2, 2]) {
        0 => w.to_string(),
        1 => upper_s(w),
        2 => lower_s(w),
        _ => w.chars().enumerate().map(|(i, c)| if i % 2 == 1 { upper(c) } else { lower(c) }).collect(),
    }
}

fn is_strict_keyword(s: &str) -> bool {
    // every spelling the generator can produce from KEYWORDS that is a keyword of edition 2021
    matches!(s, "fn" | "type" | "match" | "loop" | "move" | "dyn")
}

fn build_enum(d: &mut Dice) -> GenCase {
    // (an enum without variants rejects every string)
    let nv = if d.chance(2) { 0 } else { d.range(1, 6) };
    // (name, written identifier)
    let mut vars: Vec<(String, String)> = vec![];
    let mut labels = vec!["kind=enum".to_string()];
    let want_collision = d.chance(45);
    let want_raw = d.chance(30);
    for i in 0..nv {
        let mut tries = 0;
        loop {
            tries += 1;
            let (name, raw) = if want_collision && i > 0 && d.chance(55) {
                // another spelling of an earlier name
                let (prev, _) = vars[d.pick(vars.len())].clone();
                let n = match d.pick(4) {
                    0 => upper_s(&prev),
                    1 => lower_s(&prev),
                    2 => {
                        let mut c: Vec<char> = prev.chars().collect();
                        let k = d.pick(c.len());
                        c[k] = if is_lower(c[k]) { upper(c[k]) } else { lower(c[k]) };
                        c.into_iter().collect()
                    }
                    _ => {
                        let mut c = prev.chars();
                        c.next().map(|f| upper(f).to_string() + &lower_s(c.as_str())).unwrap_or_default()
                    }
                };
                (n, d.chance(10))
            } else if want_raw && d.chance(45) {
                { let w = KEYWORDS[d.pick(KEYWORDS.len())]; (case_pattern(d, w), true) }
            } else {
                { let w = BASES[d.pick(BASES.len())]; (case_pattern(d, w), d.chance(5)) }
            };
            let raw = raw || is_strict_keyword(&name);
            // `Self`, `self`, `crate`, `super` cannot be raw identifiers; none is producible from the word lists
            let ok = !vars.iter().any(|(n, _)| *n == name) && !name.is_empty() && !name.starts_with(|c: char| c.is_ascii_digit());
            if ok {
                let ident = if raw { format!("r#{name}") } else { name.clone() };
                vars.push((name, ident));
                break;
            }
            if tries > 6 {
                let name = format!("V{i}");
                vars.push((name.clone(), name));
                break;
            }
        }
    }
    let has_raw = vars.iter().any(|(n, i)| n != i);
    let has_collision = vars.iter().enumerate().any(|(i, (n, _))| vars.iter().enumerate().any(|(j, (m, _))| i != j && ci_eq(n, m)));
    let raw_collision = vars.iter().enumerate().any(|(i, (n, id))| n != id && vars.iter().enumerate().any(|(j, (m, _))| i != j && ci_eq(n, m)));
    // shapes: `V()` / `V {}` are field-less too
    let mut shapes: Vec<&str> = vec![""; vars.len()];
    let mut has_empty_shape = false;
    if nv > 0 && d.chance(4) {
        let k = d.pick(vars.len());
        shapes[k] = if d.chance(50) { "()" } else { " {}" };
        has_empty_shape = true;
    }
    let (ename, eident) = match d.weighted(&[6, 3, if AVOID_RAW_ENUM_NAME_IN_ERROR { 0 } else { 1 }]) {
        0 => ("E".to_string(), "E".to_string()),
        1 => ("MyEnum".to_string(), "MyEnum".to_string()),
        _ => ("Type".to_string(), "r#Type".to_string()),
    };
    // a field-less enum can only carry const parameters: (declaration, where-clause, instantiation)
    let (egen, ewh, einst) = match d.weighted(&[78, 10, 6, 6]) {
        0 => ("", "", ""),
        1 => ("<const K: usize>", "", "<3>"),
        2 => ("<const K: usize = 3>", "", "<3>"),
        _ => ("<const K: usize, const L: bool>", " where [u8; K]: Sized", "<3, true>"),
    };
    // explicit discriminants / a repr hint do not matter to FromStr (unit variants only; a few of them)
    let with_discr = nv > 0 && !has_empty_shape && d.chance(12);
    let discr: Vec<String> = (0..vars.len()).map(|i| if with_discr && (i == 0 || d.chance(50)) { format!(" = {}", 3 * i + 1) } else { String::new() }).collect();
    let erepr = if with_discr && d.chance(50) { "#[repr(u8)]\n" } else { "" };
    let seed = (d.pick(65536) as u64) << 16 | d.pick(65536) as u64;
    let decl: String = vars.iter().zip(&shapes).zip(&discr).map(|(((_, id), sh), dc)| format!("    {id}{sh}{dc},\n")).collect();
    let arms: String = vars.iter().zip(&shapes).enumerate().map(|(i, ((_, id), sh))| format!("{eident}::{id}{} => {i}, ", if sh.is_empty() { "" } else if *sh == "()" { "()" } else { " {}" })).collect();
    let names: String = vars.iter().map(|(n, _)| format!("{n:?}, ")).collect();
    let idents: String = vars.iter().map(|(_, i)| format!("{i:?}, ")).collect();
    let star = if nv == 0 { "*" } else { "" };
    let body = format!(
        "#[derive(derive_more::FromStr, Debug, Clone, Copy, PartialEq)]\n{erepr}pub enum {eident}{egen}{ewh} {{\n{decl}}}\nconst NAMES: &[&str] = &[{names}];\nconst IDENTS: &[&str] = &[{idents}];\nfn idx(v: &{eident}{einst}) -> usize {{ match {star}v {{ {arms}}} }}\npub fn run(o: &mut Out) {{\n    enum_check::<{eident}{einst}>(o, {ename:?}, NAMES, IDENTS, idx, {seed});\n}}\n"
    );
    labels.push(format!("variants={nv}"));
    if !egen.is_empty() {
        labels.push("const_generic_enum".into());
    }
    if with_discr {
        labels.push("enum_with_explicit_discriminants".into());
    }
    if nv == 0 {
        labels.push("empty_enum".into());
    }
    if vars.iter().any(|(n, _)| !n.is_ascii()) {
        labels.push("non_ascii_variant_name".into());
    }
    if has_collision {
        labels.push("has_case_collision_group".into());
    }
    if has_raw {
        labels.push("has_raw_variant".into());
    }
    if raw_collision {
        labels.push("raw_variant_in_collision_group".into());
    }
    if has_empty_shape {
        labels.push("empty_tuple_or_brace_variant".into());
    }
    if ename == "Type" {
        labels.push("raw_enum_name".into());
    }
    if vars.iter().any(|(n, _)| n.len() <= 3) {
        labels.push("name_within_exhaustive_length".into());
    }
    if vars.iter().any(|(n, _)| n.contains('_') || n.chars().any(|c| c.is_ascii_digit())) {
        labels.push("name_with_digit_or_underscore".into());
    }
    let mut c = GenCase::new(body);
    c.nontrivial = has_collision || has_raw;
    c.labels = labels;
    c.meta = json!({"kind": "enum", "has_raw": has_raw, "has_empty_shape": has_empty_shape, "names": vars.iter().map(|v| v.0.clone()).collect::<Vec<_>>(), "idents": vars.iter().map(|v| v.1.clone()).collect::<Vec<_>>()});
    c
}

/// (type, extra strings worth trying, label)
const INNERS: [(&str, &[&str], &str); 14] = [
    ("i32", &["-2147483648", "+2147483647"], "i32"),
    ("u8", &["255", "+255", "-0", "256"], "u8"),
    ("i64", &["9223372036854775807", "9223372036854775808"], "i64"),
    ("u128", &["340282366920938463463374607431768211455", "340282366920938463463374607431768211456"], "u128"),
    ("f64", &["1e308", "1e309", "-0.0", "+.5e-3", "Infinity", "1.7976931348623157e308"], "f64"),
    ("f32", &["3.4028236e38", "1e39", "-NaN"], "f32"),
    ("bool", &["true", "false", "true ", "1"], "bool"),
    ("char", &["a", "é", "ab", "", "𝒳"], "char"),
    ("String", &["anything at all", " padded "], "String"),
    ("std::net::IpAddr", &["10.0.0.1", "::ffff:1.2.3.4", "1.2.3.4.5", "01.2.3.4"], "IpAddr"),
    ("std::net::SocketAddr", &["1.2.3.4:80", "[::1]:8080", "1.2.3.4"], "SocketAddr"),
    ("std::num::NonZeroU8", &["0", "1", "255", "256"], "NonZeroU8"),
    ("std::path::PathBuf", &["a/b", ""], "PathBuf"),
    ("Cx", &["cx:0", "cx:4294967295", "cx:4294967296", "cx: 7", "cx:7\n"], "custom"),
];

fn build_newtype(d: &mut Dice) -> GenCase {
    let (ty, extra, tlabel) = INNERS[d.weighted(&[6, 4, 2, 2, 4, 2, 3, 3, 3, 3, 2, 2, 2, 8])];
    let named = d.chance(45);
    let generic = d.weighted(&[12, 4, 2, 2, 2, 3, 2, 2]);
    let fname = if named { *d.choose(&["v", "inner", "r#type", "x"]) } else { "" };
    let sname = match d.weighted(&[6, 3, 1]) {
        0 => "N",
        1 => "MyInt",
        _ => "r#Type",
    };
    // 5: the field type wraps the parameter (the derive bounds `T`, the field needs `Wrap<T>: FromStr`);
    // 6: a defaulted parameter; 7: a lifetime parameter
    let ty: String = match generic {
        5 => format!("Wrap<{ty}>"),
        7 => "Tg<'static>".to_string(),
        _ => ty.to_string(),
    };
    let ty = ty.as_str();
    let (extra, tlabel): (&[&str], &str) = if generic == 7 { (&["cx:0", "cx:4294967296", "tg:1"], "custom_lifetime") } else { (extra, tlabel) };
    let fty = match generic {
        0 => ty,
        5 => "Wrap<T>",
        7 => "Tg<'a>",
        _ => "T",
    };
    let inner_arg = ty.strip_prefix("Wrap<").and_then(|x| x.strip_suffix('>')).unwrap_or(ty);
    let (gen_decl, wh, inst): (String, &str, String) = match generic {
        0 => (String::new(), "", String::new()),
        1 => ("<T>".into(), "", format!("<{ty}>")),
        2 => ("<T: Clone>".into(), "", format!("<{ty}>")),
        3 => ("<T>".into(), " where T: core::fmt::Debug", format!("<{ty}>")),
        4 => ("<T, const K: usize>".into(), "", format!("<{ty}, 3>")),
        5 => ("<T>".into(), "", format!("<{inner_arg}>")),
        6 => (format!("<T = {ty}>"), "", format!("<{ty}>")),
        _ => ("<'a>".into(), "", "<'static>".to_string()),
    };
    let def = if named {
        format!("pub struct {sname}{gen_decl}{wh} {{ {fname}: {fty} }}")
    } else if wh.is_empty() {
        format!("pub struct {sname}{gen_decl}({fty});")
    } else {
        format!("pub struct {sname}{gen_decl}({fty}){wh};")
    };
    let wrap = if named { format!("|x| {sname} {{ {fname}: x }}") } else { format!("|x| {sname}(x)") };
    let extra_src: String = extra.iter().map(|s| format!("{s:?}, ")).collect();
    let seed = (d.pick(65536) as u64) << 16 | d.pick(65536) as u64;
    let body = format!(
        "#[derive(derive_more::FromStr, Debug, PartialEq)]\n{def}\npub fn run(o: &mut Out) {{\n    newtype_check::<{sname}{inst}, {ty}>(o, {wrap}, &[{extra_src}], {seed});\n}}\n"
    );
    let mut labels = vec!["kind=newtype".to_string(), format!("inner={tlabel}"), if named { "named_field".to_string() } else { "tuple_field".to_string() }];
    if generic > 0 && generic != 7 {
        labels.push("generic_newtype".into());
    }
    if generic == 4 {
        labels.push("const_generic_newtype".into());
    }
    match generic {
        5 => labels.push("newtype_over_generic_wrapper".into()),
        6 => labels.push("newtype_param_default".into()),
        7 => labels.push("newtype_lifetime_param".into()),
        _ => {}
    }
    if fname == "r#type" || sname == "r#Type" {
        labels.push("raw_ident_in_newtype".into());
    }
    let mut c = GenCase::new(body);
    c.nontrivial = !matches!(tlabel, "String" | "PathBuf");
    c.labels = labels;
    c.meta = json!({"kind": "newtype", "inner": tlabel});
    c
}

fn build(d: &mut Dice) -> GenCase {
    if d.chance(30) {
        build_newtype(d)
    } else {
        build_enum(d)
    }
}

fn enum_case(name: &str, variants: &[(&str, &str)], shapes: &[&str]) -> GenCase {
    let decl: String = variants.iter().zip(shapes).map(|((_, id), sh)| format!("    {id}{sh},\n")).collect();
    let arms: String = variants.iter().zip(shapes).enumerate().map(|(i, ((_, id), sh))| format!("{name}::{id}{sh} => {i}, ")).collect();
    let names: String = variants.iter().map(|(n, _)| format!("{n:?}, ")).collect();
    let idents: String = variants.iter().map(|(_, i)| format!("{i:?}, ")).collect();
    let body = format!(
        "#[derive(derive_more::FromStr, Debug, Clone, Copy, PartialEq)]\npub enum {name} {{\n{decl}}}\nconst NAMES: &[&str] = &[{names}];\nconst IDENTS: &[&str] = &[{idents}];\nfn idx(v: &{name}) -> usize {{ match v {{ {arms}}} }}\npub fn run(o: &mut Out) {{\n    enum_check::<{name}>(o, {name:?}, NAMES, IDENTS, idx, 1);\n}}\n"
    );
    let has_raw = variants.iter().any(|(n, i)| n != i);
    let has_empty_shape = shapes.iter().any(|s| !s.is_empty());
    let mut c = GenCase::new(body);
    c.labels = vec!["kind=enum".into(), "fixed".into()];
    c.meta = json!({"kind": "enum", "has_raw": has_raw, "has_empty_shape": has_empty_shape});
    c
}

/// the repo's own example, the smallest instances of each class
fn fixed() -> Vec<GenCase> {
    vec![
        enum_case("EnumNoFields", &[("Foo", "Foo"), ("Bar", "Bar"), ("Baz", "Baz"), ("BaZ", "BaZ")], &["", "", "", ""]),
        enum_case("E", &[("A", "A")], &[""]),
        enum_case("E", &[("a", "a"), ("A", "A")], &["", ""]),
        enum_case("E", &[("Err", "Err"), ("Ok", "Ok"), ("None", "None")], &["", "", ""]),
        enum_case("E", &[("fn", "r#fn")], &[""]),
        enum_case("E", &[("fn", "r#fn"), ("Fn", "Fn")], &["", ""]),
        enum_case("E", &[("Foo", "r#Foo"), ("foo", "foo"), ("FOO", "FOO")], &["", "", ""]),
        enum_case("E", &[("A", "A"), ("B", "B")], &["()", ""]),
        enum_case("E", &[("A", "A"), ("B", "B")], &["", " {}"]),
        raw_enum_case("#[derive(derive_more::FromStr, Debug, Clone, Copy, PartialEq)]\npub enum E {}\nconst NAMES: &[&str] = &[];\nconst IDENTS: &[&str] = &[];\nfn idx(v: &E) -> usize { match *v {} }\npub fn run(o: &mut Out) {\n    enum_check::<E>(o, \"E\", NAMES, IDENTS, idx, 1);\n}\n"),
        raw_enum_case("#[derive(derive_more::FromStr, Debug, Clone, Copy, PartialEq)]\npub enum E<const K: usize> { Foo, foo, Bar = 7 }\nconst NAMES: &[&str] = &[\"Foo\", \"foo\", \"Bar\"];\nconst IDENTS: &[&str] = &[\"Foo\", \"foo\", \"Bar\"];\nfn idx(v: &E<3>) -> usize { match v { E::Foo => 0, E::foo => 1, E::Bar => 2 } }\npub fn run(o: &mut Out) {\n    enum_check::<E<3>>(o, \"E\", NAMES, IDENTS, idx, 1);\n}\n"),
    ]
}

fn raw_enum_case(body: &str) -> GenCase {
    let mut c = GenCase::new(body.to_string());
    c.labels = vec!["kind=enum".into(), "fixed".into()];
    c.meta = json!({"kind": "enum", "has_raw": false, "has_empty_shape": false});
    c
}

fn classify(c: &GenCase, r: &CaseResult, f: &Finding) -> Option<String> {
    if !c.expect_compile || c.meta["kind"] != "enum" {
        return None;
    }
    if !r.compiled {
        // `V()` / `V {}`: the expansion writes the bare path `E::V`, which is a constructor function (E0308 in the
        // match) resp. not a value at all (E0533)
        if c.meta["has_empty_shape"].as_bool() == Some(true) && !r.errors.is_empty() {
            let all = r.errors.iter().all(|e| {
                e.code.as_deref() == Some("E0533") || (e.code.as_deref() == Some("E0308") && (e.rendered.contains("enum constructor") || e.rendered.contains("fn() ->")))
            });
            if all {
                return Some(SIG_EMPTY.into());
            }
        }
        return None;
    }
    // the program itself established that the observed result is what "the `r#` belongs to the name" predicts
    if c.meta["has_raw"].as_bool() == Some(true) && f.summary.starts_with("run-time oracle failed: [r#-model] ") {
        return Some(SIG_RAW.into());
    }
    None
}

const RULE: &str = "field-less enums (0..6 variants, optionally with const parameters / explicit discriminants / a repr hint; names from 25 words (3 with non-ASCII letters É Ä Ø Ü) in 4 case patterns, groups differing only in case, raw identifiers incl. keywords, names with digits/underscores, raw enum name, `V()`/`V {}` variants) and newtypes (tuple/named/raw field, 8 generic forms incl. a field type wrapping the parameter, a defaulted parameter, a lifetime parameter) over i32,u8,i64,u128,f64,f32,bool,char,String,IpAddr,SocketAddr,NonZeroU8,PathBuf and a custom type with a custom error echoing its input. Enum strings, generated inside the program: exhaustively all strings up to length L<=4 over the letters of each name in both cases plus `_ - space #` (L = largest with <=6000 strings; same over the letters of all names), all 2^min(len,8) case patterns of every name (also behind r#/R#), all one-edit neighbours over that alphabet and 9 multi-byte characters (incl. dotless `ı`, whose upper-case form is ASCII), prefixes, suffixes, concatenations, padded names, 500 seeded random strings <=24 chars; oracle: reference implementation of the documented rule over the unraw names, Err must be derive_more::FromStrError (type-checked) whose Display mentions the enum's name; every own name must parse back. Newtype strings: 64 base strings + per-type extras, each padded 8 ways, 800 seeded random strings; oracle: s.parse::<Inner>().map(N) equal incl. the error value (type identity checked by the compiler). Non-trivial = enum with a case-collision group or a raw identifier (strings within one edit of every name are always included), newtype whose inner type can fail; distinct by program text";

pub fn prop() -> DiceProp {
    DiceProp {
        crate_name: "gen_c13",
        prelude: PRELUDE.to_string(),
        crate_attrs: String::new(),
        nightly: false,
        check_only: false,
        ndice: 96,
        quick: (2500, 1),
        thorough: (4000, 5),
        build,
        fixed,
        classify,
        rule: RULE.into(),
        assumptions: vec![
            "variant names are ASCII or use the letters É Ä Ø Ü whose case forms correspond one to one; strings contain no character whose lower-case form has an ASCII letter other than ASCII letters themselves (Kelvin sign, dotted capital I are excluded), so `ignoring case` is unambiguous".into(),
            "std's FromStr impls of the installed toolchain are the reference for newtypes".into(),
        ],
        floors: vec![
            ("kind=enum".into(), 0.5),
            ("kind=newtype".into(), 0.2),
            ("has_case_collision_group".into(), 0.15),
            ("has_raw_variant".into(), 0.1),
            ("raw_variant_in_collision_group".into(), 0.02),
            ("name_within_exhaustive_length".into(), 0.3),
            ("inner=custom".into(), 0.03),
            ("generic_newtype".into(), 0.05),
            ("const_generic_enum".into(), 0.08),
            ("enum_with_explicit_discriminants".into(), 0.03),
            ("newtype_over_generic_wrapper".into(), 0.01),
        ],
        shards: 0,
    }
}

pub fn run(ctx: &Ctx) -> Report {
    super::progprop::run(&prop(), ctx)
}

pub fn replay(ctx: &Ctx, case: &serde_json::Value) -> Report {
    super::progprop::replay(&prop(), ctx, case)
}

//! Generic driver for properties decided by generated programs (engine E2): draw cases from a
//! proptest strategy with the run's seed, de-duplicate, classify, render, build+run, judge, shrink.
use super::core::*;
use super::proggen::*;
use proptest::strategy::{BoxedStrategy, Strategy, ValueTree};
use serde::{de::DeserializeOwned, Serialize};
use serde_json::{json, Value};
use std::collections::HashSet;

#[derive(Clone, Debug)]
pub struct Finding {
    pub sig: Option<String>,
    pub summary: String,
    pub expected: String,
    pub observed: String,
    /// for "the expansion raises warnings" findings: the warnings (code + message); the driver drops those the
    /// control rendering (same items without derive_more) raises as well
    pub warnings: Vec<String>,
}

pub const WARNING_EXPECTED: &str = "no warnings attributable to the derive expansion (builds under #![deny(warnings)])";

pub trait ProgProp: Sync {
    type Case: Clone + std::fmt::Debug + Serialize + DeserializeOwned + Send + Sync;
    /// the crate layout (name must be unique per property)
    fn spec(&self, ctx: &Ctx) -> ProgSpec;
    fn strategy(&self, ctx: &Ctx) -> BoxedStrategy<Self::Case>;
    /// number of random cases per round, number of rounds
    fn budget(&self, tier: Tier) -> (usize, u32);
    /// deterministic cases added before the random ones (pairwise arrays, regression corpus)
    fn fixed_cases(&self, _ctx: &Ctx) -> Vec<Self::Case> {
        vec![]
    }
    /// canonical rendering used for de-duplication and distinct counting
    fn canonical(&self, case: &Self::Case) -> String;
    /// is the case non-trivial by the property's stated rule?
    fn nontrivial(&self, case: &Self::Case) -> bool;
    /// classification labels
    fn labels(&self, _case: &Self::Case) -> Vec<String> {
        vec![]
    }
    fn render(&self, case: &Self::Case) -> CaseSrc;
    /// judge one case; an empty vector means the property held for it
    fn judge(&self, ctx: &Ctx, case: &Self::Case, res: &CaseResult) -> Vec<Finding>;
    /// optional control rendering (same items without the derives): if it fails to compile too, the
    /// *generator* produced an ill-formed program (counted as generator_rejects, never a violation)
    fn render_control(&self, _case: &Self::Case) -> Option<CaseSrc> {
        None
    }
    /// label floors: (label, minimal share of cases in [0,1]); violated floors make the run exit 2
    fn floors(&self) -> Vec<(String, f64)> {
        vec![]
    }
    fn sample_json(&self, case: &Self::Case) -> Value {
        json!(self.canonical(case))
    }
    fn rule(&self) -> String;
    fn assumptions(&self) -> Vec<String> {
        vec![]
    }
    /// maximal number of shrink steps (each is a single-case build+run)
    fn shrink_steps(&self, tier: Tier) -> usize {
        tier.pick(24, 60)
    }
}

fn eval_cases<P: ProgProp>(p: &P, ctx: &Ctx, spec: &ProgSpec, cases: &[P::Case]) -> Result<(Vec<Vec<Finding>>, Built), String> {
    let srcs: Vec<CaseSrc> = cases.iter().map(|c| p.render(c)).collect();
    let built = build_and_run(ctx, spec, &srcs)?;
    let mut out = Vec::with_capacity(cases.len());
    for (c, r) in cases.iter().zip(built.results.iter()) {
        if r.no_record && r.compiled {
            out.push(vec![]);
            continue;
        }
        out.push(p.judge(ctx, c, r));
    }
    Ok((out, built))
}

/// Does this single case (still) fail? Used while shrinking and for replay.
fn single_fails<P: ProgProp>(p: &P, ctx: &Ctx, case: &P::Case, suffix: &str) -> Result<Vec<Finding>, String> {
    let mut spec = p.spec(ctx);
    spec.name = format!("{}_{suffix}", spec.name);
    spec.shards = 1;
    let (f, built) = eval_cases(p, ctx, &spec, std::slice::from_ref(case))?;
    if !built.infra.is_empty() {
        return Err(built.infra.join("; "));
    }
    Ok(f.into_iter().next().unwrap_or_default())
}

pub fn run<P: ProgProp>(p: &P, ctx: &Ctx) -> Report {
    let mut rep = Report::new(&p.rule());
    rep.evidence.assumptions = p.assumptions();
    let spec = p.spec(ctx);
    let (per_round, rounds) = p.budget(ctx.tier);
    let strat = p.strategy(ctx);
    let mut seen: HashSet<u64> = HashSet::new();
    let mut total_builds = 0usize;
    let mut generator_rejects = 0u64;
    let mut reported_sigs: HashSet<String> = HashSet::new();
    for round in 0..rounds {
        let mut runner = ctx.runner(round);
        let mut cases: Vec<P::Case> = vec![];
        let mut trees: Vec<Option<Box<dyn ValueTree<Value = P::Case>>>> = vec![];
        if round == 0 {
            for c in p.fixed_cases(ctx) {
                if seen.insert(hash_str(&p.canonical(&c))) {
                    cases.push(c);
                    trees.push(None);
                }
            }
        }
        let mut dup = 0u64;
        for t in draw(&mut runner, &strat, per_round) {
            let c = t.current();
            if seen.insert(hash_str(&p.canonical(&c))) {
                cases.push(c);
                trees.push(Some(t));
            } else {
                dup += 1;
            }
        }
        rep.evidence.add("duplicates_dropped", dup);
        for c in &cases {
            rep.evidence.eval(1);
            let canon = p.canonical(c);
            if p.nontrivial(c) {
                rep.evidence.nontrivial(&canon);
                rep.evidence.label("nontrivial");
            }
            for l in p.labels(c) {
                rep.evidence.label(&l);
            }
        }
        let n = cases.len();
        let step = (n / 6).max(1);
        for c in cases.iter().step_by(step) {
            rep.evidence.sample(p.sample_json(c));
        }
        let (findings, built) = match eval_cases(p, ctx, &spec, &cases) {
            Ok(x) => x,
            Err(e) => {
                rep.infra_errors.push(e);
                break;
            }
        };
        total_builds += built.builds;
        rep.infra_errors.extend(built.infra.clone());
        let no_rec = built.results.iter().filter(|r| r.no_record && r.compiled).count();
        if no_rec > 0 {
            rep.evidence.add("cases_without_run_record", no_rec as u64);
        }
        rep.evidence.add("compiled_cases", built.results.iter().filter(|r| r.compiled).count() as u64);
        rep.evidence.add("compile_failed_cases", built.results.iter().filter(|r| !r.compiled).count() as u64);
        // a broken prelude / generator shows as (almost) everything failing: do not shrink thousands of cases
        let failed = built.results.iter().filter(|r| !r.compiled).count();
        let expected_fail = cases.iter().filter(|c| p.render(c).negative).count();
        if cases.len() >= 20 && failed > expected_fail + (cases.len() - expected_fail) / 2 {
            // ... unless the failing cases carry diagnostics of their own (located inside the case's module, i.e. at its derive
            // or its items): then the prelude and the dependency build are fine and it is the tree under test that refuses (or
            // mis-expands) nearly everything — a violation, reported for a few representative cases without shrinking
            let own: Vec<usize> = (0..cases.len()).filter(|i| !built.results[*i].compiled && !p.render(&cases[*i]).negative && !built.results[*i].errors.is_empty()).collect();
            let failing_positive = (0..cases.len()).filter(|i| !built.results[*i].compiled && !p.render(&cases[*i]).negative).count();
            if !own.is_empty() && own.len() * 10 >= failing_positive * 8 {
                let mut seen: HashSet<String> = HashSet::new();
                for i in own {
                    let fe = built.results[i].first_error();
                    let key: String = fe.chars().filter(|c| !c.is_ascii_digit()).take(60).collect();
                    if !seen.insert(key) || seen.len() > 5 {
                        continue;
                    }
                    if let Some(f) = findings[i].first() {
                        rep.violations.push(Violation {
                            sig: None,
                            summary: format!("{} ({failed} of {} cases fail alike; not minimised)", f.summary, cases.len()),
                            case: serde_json::to_value(&cases[i]).unwrap_or(Value::Null),
                            expected: f.expected.clone(),
                            observed: f.observed.clone(),
                        });
                    }
                }
                if !rep.violations.is_empty() {
                    break;
                }
            }
            let first = built.results.iter().find(|r| !r.compiled).map(|r| r.error_text()).unwrap_or_default();
            rep.infra_errors.push(format!(
                "{failed} of {} cases fail to compile — broken prelude/generator or a tree that does not build; first error: {}",
                cases.len(),
                first.chars().take(1500).collect::<String>()
            ));
            break;
        }
        // generator soundness control: all failing must-compile cases at once
        let mut generator_fault: HashSet<usize> = HashSet::new();
        {
            let idx: Vec<usize> = (0..cases.len()).filter(|i| !findings[*i].is_empty() && !built.results[*i].compiled).collect();
            let ctrls: Vec<(usize, CaseSrc)> = idx.iter().filter_map(|i| p.render_control(&cases[*i]).map(|c| (*i, c))).collect();
            if !ctrls.is_empty() {
                let mut cspec = spec.clone();
                cspec.name = format!("{}_ctrl", spec.name);
                cspec.check_only = true;
                cspec.shards = 0;
                let srcs: Vec<CaseSrc> = ctrls.iter().map(|c| c.1.clone()).collect();
                if let Ok(b) = build_and_run(ctx, &cspec, &srcs) {
                    for (k, (i, _)) in ctrls.iter().enumerate() {
                        if !b.results[k].compiled {
                            generator_fault.insert(*i);
                        }
                    }
                }
            }
        }
        // warnings "of its own": subtract what the control rendering raises too
        let mut findings = findings;
        {
            let idx: Vec<usize> = (0..cases.len()).filter(|i| findings[*i].iter().any(|f| !f.warnings.is_empty())).collect();
            let ctrls: Vec<(usize, CaseSrc)> = idx.iter().filter_map(|i| p.render_control(&cases[*i]).map(|c| (*i, c))).collect();
            if !ctrls.is_empty() {
                let mut cspec = spec.clone();
                cspec.name = format!("{}_ctrl", spec.name);
                cspec.check_only = true;
                cspec.shards = 0;
                let srcs: Vec<CaseSrc> = ctrls.iter().map(|c| c.1.clone()).collect();
                if let Ok(b) = build_and_run(ctx, &cspec, &srcs) {
                    for (k, (i, _)) in ctrls.iter().enumerate() {
                        let cw: HashSet<String> = b.results[k].warnings.iter().map(|w| format!("{}{}", w.code.as_ref().map(|c| format!("[{c}] ")).unwrap_or_default(), w.message)).collect();
                        for f in findings[*i].iter_mut() {
                            f.warnings.retain(|w| !cw.contains(w));
                        }
                        findings[*i].retain(|f| f.expected != WARNING_EXPECTED || !f.warnings.is_empty());
                    }
                }
            }
        }
        // failing cases: shrink, report
        let mut shrink_budget = ctx.tier.pick(6usize, 20usize);
        for (i, fs) in findings.into_iter().enumerate() {
            if fs.is_empty() {
                continue;
            }
            let case = &cases[i];
            if generator_fault.contains(&i) {
                generator_rejects += 1;
                rep.evidence.label("generator_reject");
                if rep.evidence.extra.get("generator_reject_example").is_none() {
                    rep.evidence.set("generator_reject_example", json!({"program": p.canonical(case), "error": built.results[i].first_error()}));
                }
                continue;
            }
            let f0 = &fs[0];
            let known = f0.sig.as_ref().is_some_and(|s| ctx.is_known(s));
            let key = format!("{:?}", f0.sig);
            let (min_case, min_f) = if !known && shrink_budget > 0 && trees[i].is_some() && (f0.sig.is_none() || !reported_sigs.contains(&key)) {
                shrink_budget -= 1;
                let tree = trees[i].as_mut().unwrap();
                let want_sig = f0.sig.clone();
                let mut last: Option<Finding> = None;
                let best = shrink(
                    tree,
                    |c| match single_fails(p, ctx, c, "shrink") {
                        Ok(f) => {
                            let hit = f.iter().find(|x| x.sig == want_sig).cloned();
                            if let Some(h) = hit {
                                last = Some(h);
                                true
                            } else {
                                false
                            }
                        }
                        Err(_) => false,
                    },
                    p.shrink_steps(ctx.tier),
                );
                // `last` belongs to the last failing candidate = best (or none if the first simplify step never failed)
                let bf = match single_fails(p, ctx, &best, "shrink") {
                    Ok(f) => f.into_iter().find(|x| x.sig == want_sig).or(last).unwrap_or_else(|| f0.clone()),
                    Err(_) => f0.clone(),
                };
                (best, bf)
            } else {
                (case.clone(), f0.clone())
            };
            if let Some(s) = &min_f.sig {
                reported_sigs.insert(format!("{:?}", Some(s)));
            }
            rep.violations.push(Violation {
                sig: min_f.sig.clone(),
                summary: min_f.summary.clone(),
                case: serde_json::to_value(&min_case).unwrap_or(Value::Null),
                expected: min_f.expected.clone(),
                observed: min_f.observed.clone(),
            });
        }
    }
    rep.evidence.set("builds", json!(total_builds));
    rep.evidence.set("generator_rejects", json!(generator_rejects));
    let evals = rep.evidence.evaluations.max(1);
    if generator_rejects as f64 > 0.02 * evals as f64 {
        rep.infra_errors.push(format!(
            "generator unsound: {generator_rejects} of {evals} cases fail to compile even without the derives"
        ));
    }
    for (label, floor) in p.floors() {
        let have = rep.evidence.labels.get(&label).copied().unwrap_or(0) as f64 / evals as f64;
        if have < floor {
            rep.infra_errors.push(format!(
                "generator distribution: label `{label}` has share {have:.4} < floor {floor}"
            ));
        }
    }
    rep
}

pub fn replay<P: ProgProp>(p: &P, ctx: &Ctx, case: &Value) -> Report {
    let mut rep = Report::new(&p.rule());
    let c: P::Case = match serde_json::from_value(case.clone()) {
        Ok(c) => c,
        Err(e) => {
            rep.infra_errors.push(format!("replay case does not deserialize: {e}"));
            return rep;
        }
    };
    rep.evidence.eval(1);
    match single_fails(p, ctx, &c, "replay") {
        Ok(fs) => {
            for f in fs {
                rep.violations.push(Violation {
                    sig: f.sig,
                    summary: f.summary,
                    case: case.clone(),
                    expected: f.expected,
                    observed: f.observed,
                });
            }
        }
        Err(e) => rep.infra_errors.push(e),
    }
    rep
}


// ------------------------------------------------------------------------------------------------
// Dice-driven builders: a case is built by plain Rust code consuming a proptest-generated vector of
// random numbers, so every random choice stays inside proptest (seeded, shrinkable: dice shrink
// toward 0 and every choice is written so that 0 is the simplest alternative).

pub struct Dice {
    v: Vec<u16>,
    pos: usize,
}

impl Dice {
    pub fn new(v: Vec<u16>) -> Dice {
        Dice { v, pos: 0 }
    }
    fn raw(&mut self) -> u16 {
        let r = self.v.get(self.pos).copied().unwrap_or(0);
        self.pos += 1;
        r
    }
    /// uniform in 0..n (monotone in the underlying die)
    pub fn pick(&mut self, n: usize) -> usize {
        if n == 0 {
            return 0;
        }
        ((self.raw() as usize) * n) >> 16
    }
    /// true with probability `percent`/100; a zero die gives false
    pub fn chance(&mut self, percent: u32) -> bool {
        let r = self.raw() as u32;
        r >= 65536 - (65536 * percent.min(100)) / 100
    }
    pub fn range(&mut self, lo: usize, hi_incl: usize) -> usize {
        lo + self.pick(hi_incl - lo + 1)
    }
    pub fn choose<'a, T>(&mut self, xs: &'a [T]) -> &'a T {
        &xs[self.pick(xs.len())]
    }
    /// weighted choice; returns the index
    pub fn weighted(&mut self, w: &[u32]) -> usize {
        let total: u32 = w.iter().sum();
        let mut x = self.pick(total as usize) as u32;
        for (i, wi) in w.iter().enumerate() {
            if x < *wi {
                return i;
            }
            x -= wi;
        }
        w.len() - 1
    }
    pub fn used(&self) -> usize {
        self.pos
    }
}

#[derive(Clone, Debug, Serialize, serde::Deserialize)]
pub struct GenCase {
    /// module body (the generated program text of this case, incl. the oracle)
    pub body: String,
    pub runnable: bool,
    /// true: must compile; false: must be rejected by the compiler
    pub expect_compile: bool,
    pub labels: Vec<String>,
    pub nontrivial: bool,
    /// free-form facts about the case used by signature classifiers
    pub meta: Value,
    /// same items with derive_more derives/attributes stripped (generator-soundness control)
    #[serde(default)]
    pub control: Option<String>,
}

impl GenCase {
    pub fn new(body: String) -> GenCase {
        GenCase { body, runnable: true, expect_compile: true, labels: vec![], nontrivial: true, meta: Value::Null, control: None }
    }
}

pub struct DiceProp {
    pub crate_name: &'static str,
    pub prelude: String,
    pub crate_attrs: String,
    pub nightly: bool,
    pub check_only: bool,
    pub ndice: usize,
    pub quick: (usize, u32),
    pub thorough: (usize, u32),
    pub build: fn(&mut Dice) -> GenCase,
    pub fixed: fn() -> Vec<GenCase>,
    /// maps a raw finding to the signature of a recorded defect model, if the observation is exactly
    /// what that defect predicts
    pub classify: fn(&GenCase, &CaseResult, &Finding) -> Option<String>,
    pub rule: String,
    pub assumptions: Vec<String>,
    pub floors: Vec<(String, f64)>,
    /// rustc error codes / message fragments that mean "the derive rejected the input with a diagnostic"
    pub shards: usize,
}

pub fn no_fixed() -> Vec<GenCase> {
    vec![]
}
pub fn no_classify(_: &GenCase, _: &CaseResult, _: &Finding) -> Option<String> {
    None
}

impl ProgProp for DiceProp {
    type Case = GenCase;
    fn spec(&self, _ctx: &Ctx) -> ProgSpec {
        ProgSpec {
            name: self.crate_name.to_string(),
            prelude: self.prelude.clone(),
            crate_attrs: self.crate_attrs.clone(),
            nightly: self.nightly,
            check_only: self.check_only,
            shards: self.shards,
        }
    }
    fn strategy(&self, _ctx: &Ctx) -> BoxedStrategy<GenCase> {
        let b = self.build;
        proptest::collection::vec(proptest::num::u16::ANY, self.ndice..=self.ndice)
            .prop_map(move |v| b(&mut Dice::new(v)))
            .boxed()
    }
    fn budget(&self, tier: Tier) -> (usize, u32) {
        tier.pick(self.quick, self.thorough)
    }
    fn fixed_cases(&self, _ctx: &Ctx) -> Vec<GenCase> {
        (self.fixed)()
    }
    fn canonical(&self, c: &GenCase) -> String {
        c.body.clone()
    }
    fn nontrivial(&self, c: &GenCase) -> bool {
        c.nontrivial
    }
    fn labels(&self, c: &GenCase) -> Vec<String> {
        c.labels.clone()
    }
    fn render(&self, c: &GenCase) -> CaseSrc {
        CaseSrc { body: c.body.clone(), runnable: c.runnable && c.expect_compile, negative: !c.expect_compile }
    }
    fn render_control(&self, c: &GenCase) -> Option<CaseSrc> {
        c.control.as_ref().map(|b| CaseSrc { body: b.clone(), runnable: false, negative: false })
    }
    fn judge(&self, _ctx: &Ctx, c: &GenCase, r: &CaseResult) -> Vec<Finding> {
        let mut out = vec![];
        if c.expect_compile {
            if !r.compiled {
                out.push(Finding {
                    sig: None,
                    summary: format!("generated program must compile but rustc rejects it: {}", r.first_error()),
                    expected: "compiles".into(),
                    observed: r.error_text(),
                    warnings: vec![],
                });
            } else {
                for (what, e, o) in &r.fails {
                    out.push(Finding {
                        sig: None,
                        summary: format!("run-time oracle failed: {what}"),
                        expected: e.clone(),
                        observed: o.clone(),
                        warnings: vec![],
                    });
                }
                if let Some(p) = &r.panicked {
                    out.push(Finding {
                        sig: None,
                        summary: format!("case panicked: {p}"),
                        expected: "no panic".into(),
                        observed: p.clone(),
                        warnings: vec![],
                    });
                }
            }
        } else if r.compiled {
            out.push(Finding {
                sig: None,
                summary: "input must be rejected with a compile error but it compiles".into(),
                expected: "compile error".into(),
                observed: "compiles".into(),
                warnings: vec![],
            });
        }
        for f in out.iter_mut() {
            f.sig = (self.classify)(c, r, f);
        }
        out
    }
    fn floors(&self) -> Vec<(String, f64)> {
        self.floors.clone()
    }
    fn sample_json(&self, c: &GenCase) -> Value {
        json!({"program": c.body, "labels": c.labels})
    }
    fn rule(&self) -> String {
        self.rule.clone()
    }
    fn assumptions(&self) -> Vec<String> {
        self.assumptions.clone()
    }
}

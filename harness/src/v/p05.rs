//! C05 — caller's formatting flags pass through exactly for bare-placeholder formats, are inert in every other
//! attribute-driven case, and a placeholder index that denotes no argument is a compile error.
//!
//! Case classes (label `class=..`):
//! * `implicit`  — Display-like derive on a single-field struct/variant without attribute: every outer spec applied
//!                 to the value must print what the same spec prints for the field under the derive's trait;
//! * `subst`     — attribute whose literal is exactly one bare placeholder (optionally with one of the 9 trait
//!                 letters) referring to a field by name, to its only positional argument (`{}` / `{0}`), or to its
//!                 only named argument: every outer spec must print what it prints for that argument under the
//!                 *placeholder's* trait;
//! * `inert`     — every other attribute-driven literal (one modifier of each kind, surrounding text / escapes,
//!                 two placeholders, none): every outer spec must print what `{}` prints, and that is what
//!                 `format!` prints for the same literal and arguments;
//! * `negative`  — placeholder index out of range, unused arguments: must be rejected by rustc.
//! The reference side lives in the generated program (`__exp`/`__ref` methods binding the fields as documented).
use super::lit::{Cnt, Spec};
use super::p02::{arg_expr, arg_expr_in, gen_fields, unraw, Field, FMT_TRAITS, K};
use super::progprop::*;
use super::proggen::CaseResult;
use serde_json::json;
use std::fmt::Write as _;

pub const SIG_INDEX: &str = "c05-index-ignored-single-arg";
pub const SIG_PTR: &str = "c05-pointer-arg-one-deref-less";

// ------------------------------------------------------------------------------------------------
// outer spec grid (without the type letter)

const F_FA: [&str; 10] = ["", "<", "^", ">", "*<", "*^", "*>", "0<", "0^", "0>"];
const F_SIGN: [&str; 3] = ["", "+", "-"];
const F_ALT: [&str; 2] = ["", "#"];
const F_ZERO: [&str; 2] = ["", "0"];
const F_WIDTH: [&str; 4] = ["", "1", "8", "12"];
const F_PREC: [&str; 3] = ["", ".0", ".3"];

/// greedy all-pairs covering array over factors of the given sizes, extending `rows`
fn all_pairs(sizes: &[usize], rows: &mut Vec<Vec<usize>>) {
    let n = sizes.len();
    let mut uncovered: std::collections::BTreeSet<(usize, usize, usize, usize)> = Default::default();
    for i in 0..n {
        for j in i + 1..n {
            for a in 0..sizes[i] {
                for b in 0..sizes[j] {
                    uncovered.insert((i, a, j, b));
                }
            }
        }
    }
    let pairs = |row: &[usize]| -> Vec<(usize, usize, usize, usize)> {
        let mut v = vec![];
        for i in 0..n {
            for j in i + 1..n {
                v.push((i, row[i], j, row[j]));
            }
        }
        v
    };
    for r in rows.iter() {
        for p in pairs(r) {
            uncovered.remove(&p);
        }
    }
    let mut all: Vec<Vec<usize>> = vec![];
    let mut idx = vec![0usize; n];
    'outer: loop {
        all.push(idx.clone());
        for k in (0..n).rev() {
            idx[k] += 1;
            if idx[k] < sizes[k] {
                continue 'outer;
            }
            idx[k] = 0;
        }
        break;
    }
    while !uncovered.is_empty() {
        let mut best = (0usize, 0usize);
        for (k, row) in all.iter().enumerate() {
            let gain = pairs(row).iter().filter(|p| uncovered.contains(p)).count();
            if gain > best.0 {
                best = (gain, k);
            }
        }
        let row = all[best.1].clone();
        for p in pairs(&row) {
            uncovered.remove(&p);
        }
        rows.push(row);
    }
}

pub fn spec_grid() -> Vec<String> {
    let sizes = [F_FA.len(), F_SIGN.len(), F_ALT.len(), F_ZERO.len(), F_WIDTH.len(), F_PREC.len()];
    let mut rows: Vec<Vec<usize>> = vec![vec![0; 6]];
    // every single modifier alone
    for (k, s) in sizes.iter().enumerate() {
        for v in 1..*s {
            let mut r = vec![0; 6];
            r[k] = v;
            rows.push(r);
        }
    }
    // the documentation's examples: {:03} {:07} {:>8} {:+.3} {:#x}
    rows.push(vec![0, 0, 0, 1, 2, 0]);
    rows.push(vec![3, 0, 0, 0, 2, 0]);
    rows.push(vec![0, 1, 0, 0, 0, 2]);
    all_pairs(&sizes, &mut rows);
    let mut x: u64 = 0xD1B54A32D192ED03;
    for _ in 0..40 {
        let mut row = vec![0usize; 6];
        for k in 0..6 {
            x = x.wrapping_mul(6364136223846793005).wrapping_add(1442695040888963407);
            row[k] = ((x >> 33) as usize) % sizes[k];
        }
        rows.push(row);
    }
    let mut seen = std::collections::HashSet::new();
    rows.iter()
        .map(|r| [F_FA[r[0]], F_SIGN[r[1]], F_ALT[r[2]], F_ZERO[r[3]], F_WIDTH[r[4]], F_PREC[r[5]]].concat())
        .filter(|s| seen.insert(s.clone()))
        .collect()
}

/// (type letters, grid function, trait path)
const GRIDS: [(&str, &str, &str); 11] = [
    ("", "__g_display", "Display"),
    ("?", "__g_debug", "Debug"),
    ("x?", "__g_debug_lx", "Debug"),
    ("X?", "__g_debug_ux", "Debug"),
    ("b", "__g_binary", "Binary"),
    ("o", "__g_octal", "Octal"),
    ("x", "__g_lower_hex", "LowerHex"),
    ("X", "__g_upper_hex", "UpperHex"),
    ("e", "__g_lower_exp", "LowerExp"),
    ("E", "__g_upper_exp", "UpperExp"),
    ("p", "__g_pointer", "Pointer"),
];

fn grid_fn(ty: &str) -> &'static str {
    GRIDS.iter().find(|g| g.0 == ty).map(|g| g.1).unwrap_or("__g_display")
}

pub fn prelude() -> String {
    let specs = spec_grid();
    let mut s = String::from(super::p02::PRELUDE);
    s.push_str("pub struct __P<'a>(pub &'a dyn std::fmt::Pointer);\nimpl std::fmt::Pointer for __P<'_> { fn fmt(&self, f: &mut std::fmt::Formatter<'_>) -> std::fmt::Result { std::fmt::Pointer::fmt(self.0, f) } }\n");
    let _ = writeln!(s, "pub const __SPECS: [&str; {}] = [{}];", specs.len(), specs.iter().map(|g| format!("{g:?}")).collect::<Vec<_>>().join(", "));
    for (ty, name, tr) in GRIDS {
        let _ = writeln!(s, "pub fn {name}(v: &dyn std::fmt::{tr}) -> Vec<String> {{\n    vec![");
        for sp in &specs {
            let lit = format!("{{:{sp}{ty}}}");
            // Pointer: the object's own impl (`&T: Pointer` would print the address of the reference instead)
            let _ = writeln!(s, "        format!({lit:?}, {}),", if ty == "p" { "__P(v)" } else { "v" });
        }
        s.push_str("    ]\n}\n");
    }
    s.push_str(
        r#"
pub struct __Acc { unknown: Vec<(String, String, String)>, known: Vec<(String, String, String)>, compared: u64, sensitive: u64 }
impl __Acc {
    pub fn new() -> __Acc { __Acc { unknown: Vec::new(), known: Vec::new(), compared: 0, sensitive: 0 } }
    /// pass-through: `obs[k]` (outer spec k applied to the derived value) must equal `exp[k]` (the same spec applied
    /// to the argument under the placeholder's trait); `model` = (signature, what a recorded defect predicts)
    pub fn subst(&mut self, outer: &str, obs: &[String], exp: &[String], model: Option<(&str, &[String])>) {
        for k in 0..obs.len() {
            self.compared += 1;
            if exp[k] != exp[0] { self.sensitive += 1; }
            if obs[k] == exp[k] { continue; }
            let what = format!("caller's `{{:{}{}}}` must apply to the argument", __SPECS[k], outer);
            match model {
                Some((sig, m)) if m[k] == obs[k] => { if self.known.is_empty() { self.known.push((format!("[{sig}] {what}"), exp[k].clone(), obs[k].clone())); } }
                _ => { if self.unknown.len() < 6 { self.unknown.push((what, exp[k].clone(), obs[k].clone())); } }
            }
        }
    }
    /// inert: every outer spec prints what the flag-free spec prints; `sens[k]` = the spec applied to the first
    /// argument directly (only to measure that the flag would have changed something)
    pub fn inert(&mut self, outer: &str, obs: &[String], plain: &str, sens: &[String]) {
        for k in 0..obs.len() {
            self.compared += 1;
            if sens[k] != sens[0] { self.sensitive += 1; }
            if obs[k] == plain { continue; }
            if self.unknown.len() < 6 {
                self.unknown.push((format!("caller's `{{:{}{}}}` must leave the output of a non-substitutable format unchanged", __SPECS[k], outer), plain.to_string(), obs[k].clone()));
            }
        }
    }
    pub fn same(&mut self, what: &str, exp: &str, obs: &str) {
        self.compared += 1;
        if exp != obs && self.unknown.len() < 6 { self.unknown.push((what.to_string(), exp.to_string(), obs.to_string())); }
    }
    pub fn finish(self, o: &mut Out) {
        for (w, e, ob) in &self.unknown { o.fail(w, e, ob); }
        for (w, e, ob) in &self.known { o.fail(w, e, ob); }
        o.put("compared", &self.compared.to_string());
        o.put("sensitive", &self.sensitive.to_string());
    }
}
"#,
    );
    s
}

// ------------------------------------------------------------------------------------------------
// shapes

struct Shape {
    tr: &'static str,
    attr: &'static str,
    tr_ty: &'static str,
    is_enum: bool,
    named: bool,
    fields: Vec<Field>,
    values: Vec<String>,
    /// the enum also carries an enum-level format that does not mention `_variant`: it is only a default for variants
    /// without an attribute of their own (C07), so it must not change anything for the variant under test
    shared_default: bool,
    /// the format under test is written on the *enum* and the variant under test has no attribute of its own: a
    /// non-`_variant` enum-level format is the format of exactly such variants (display.md, "Default enum format")
    shared_only: bool,
}

impl Shape {
    fn decl(&self) -> String {
        if self.named {
            format!("{{ {} }}", self.fields.iter().map(|f| format!("{}: {}", f.member, f.kind.ty())).collect::<Vec<_>>().join(", "))
        } else {
            format!("({})", self.fields.iter().map(|f| f.kind.ty().to_string()).collect::<Vec<_>>().join(", "))
        }
    }
    fn ctor(&self) -> String {
        if self.named {
            format!("{{ {} }}", self.fields.iter().zip(&self.values).map(|(f, v)| format!("{}: {v}", f.member)).collect::<Vec<_>>().join(", "))
        } else {
            format!("({})", self.values.join(", "))
        }
    }
    fn pat(&self) -> String {
        let names = self.fields.iter().map(|f| f.name.clone()).collect::<Vec<_>>().join(", ");
        if self.named {
            format!("{{ {names} }}")
        } else {
            format!("({names})")
        }
    }
    /// statements binding the fields the way the documentation says (`_0`/names are references to the fields)
    fn bindings(&self) -> String {
        if self.is_enum {
            format!("        let T::V{} = self else {{ unreachable!() }};\n", self.pat())
        } else {
            self.fields.iter().map(|f| format!("        let {} = &self.{};\n", f.name, f.member)).collect()
        }
    }
    fn render(&self, attr_line: Option<&str>, methods: &str, run_body: &str) -> String {
        let tr = self.tr;
        let attr = self.attr;
        let decl = self.decl();
        let ctor = self.ctor();
        let al = attr_line.map(|a| format!("#[{attr}({a})]")).unwrap_or_default();
        let imp = format!("impl T {{\n    pub fn tag(&self) -> u32 {{ 7 }}\n{methods}}}\n");
        if self.is_enum && self.shared_only && attr_line.is_some() {
            format!(
                "#[derive(derive_more::{tr})]\n{al}\npub enum T {{\n    V{decl},\n    #[{attr}(\"other\")]\n    Other,\n}}\n{imp}pub fn run(o: &mut Out) {{\n    let v = T::V{ctor};\n{run_body}}}\n"
            )
        } else if self.is_enum {
            let shared = if self.shared_default && attr_line.is_some() { format!("#[{attr}(\"<shared default>\")]\n") } else { String::new() };
            format!(
                "#[derive(derive_more::{tr})]\n{shared}pub enum T {{\n    {al}\n    V{decl},\n    #[{attr}(\"other\")]\n    Other,\n}}\n{imp}pub fn run(o: &mut Out) {{\n    let v = T::V{ctor};\n{run_body}}}\n"
            )
        } else {
            let semi = if self.named { "" } else { ";" };
            format!("#[derive(derive_more::{tr})]\n{al}\npub struct T{decl}{semi}\n{imp}pub fn run(o: &mut Out) {{\n    let v = T{ctor};\n{run_body}}}\n")
        }
    }
    /// outer type letters under which the derived value can be formatted
    fn outers(&self) -> Vec<&'static str> {
        if self.tr == "Debug" {
            vec!["?", "x?", "X?"]
        } else {
            vec![self.tr_ty]
        }
    }
}

fn gen_shape(d: &mut Dice, min: usize, max: usize, tr_idx: usize) -> Shape {
    let (tr, attr, tr_ty) = FMT_TRAITS[tr_idx];
    let is_enum = d.chance(30);
    let (named, mut fields) = gen_fields(d, min, max);
    let values = fields.iter().enumerate().map(|(i, f)| f.kind.value(i, d)).collect();
    let shared_default = is_enum && attr != "debug" && d.chance(35);
    let shared_only = is_enum && attr != "debug" && !shared_default && d.chance(35);
    if named && d.chance(25) {
        // raw-identifier field: `r#type` as binding / argument / alias, `type` inside the literal
        let k = d.pick(fields.len());
        let raw = ["r#type", "r#fn", "r#match"][d.pick(3)];
        fields[k].name = raw.to_string();
        fields[k].member = raw.to_string();
    }
    Shape { tr, attr, tr_ty, is_enum, named, fields, values, shared_default, shared_only }
}

fn lit_tok(s: &str) -> String {
    proc_macro2::Literal::string(s).to_string()
}

/// how one placeholder refers to its value
#[derive(Clone, Debug)]
struct Refer {
    /// text before the `:` inside the braces
    pos: String,
    /// attribute arguments (`expr` / `alias = expr`)
    args: Vec<String>,
    /// the expression the placeholder denotes, in terms of the bindings (for a field named directly: the binding)
    value: String,
    /// a field named directly in the literal (the field itself, not the reference)
    inline: bool,
    /// the argument is a bare field binding
    bare_field: bool,
    kind: K,
    label: &'static str,
}

/// draws one of the argument forms of the statement for a single placeholder
fn gen_refer(d: &mut Dice, sh: &Shape) -> Refer {
    let f = sh.fields[d.pick(sh.fields.len())].clone();
    match d.weighted(&[4, 4, 2, 2, 2]) {
        4 => {
            // a *positional* placeholder (`{}`, `{0}`, `{:x}`) whose only argument is written with an alias
            // (`#[display("{}", value = _0)]`, `#[display("{0:x}", v = self.0)]`): `format_args!` lets a positional
            // placeholder denote a named argument by index; "its only argument (positional index 0 or matching name)"
            let (expr, kind, bare) = arg_expr_in(&f, d, !sh.is_enum);
            let alias = match d.pick(3) {
                0 => "value".to_string(),
                1 => "v".to_string(),
                // the alias may shadow a field name (also a raw one)
                _ => sh.fields[d.pick(sh.fields.len())].name.clone(),
            };
            let pos = if d.chance(50) { String::new() } else { "0".to_string() };
            Refer { pos, args: vec![format!("{alias} = {expr}")], value: expr, inline: false, bare_field: bare, kind, label: "arg=positional_placeholder_aliased_argument" }
        }
        0 => Refer { pos: unraw(&f.name), args: vec![], value: f.name.clone(), inline: true, bare_field: true, kind: f.kind, label: "arg=field_by_name" },
        1 => {
            let (expr, kind, bare) = arg_expr(&f, d);
            let pos = if d.chance(50) { String::new() } else { "0".to_string() };
            Refer { pos, args: vec![expr.clone()], value: expr, inline: false, bare_field: bare, kind, label: if bare { "arg=positional_field" } else { "arg=positional_expression" } }
        }
        2 => {
            let (expr, kind, bare) = arg_expr(&f, d);
            // the alias may shadow a field name
            let alias = if sh.named && d.chance(25) { sh.fields[d.pick(sh.fields.len())].name.clone() } else { ["k", "v", "al"][d.pick(3)].to_string() };
            Refer { pos: unraw(&alias), args: vec![format!("{alias} = {expr}")], value: expr, inline: false, bare_field: bare, kind, label: "arg=named_matching" }
        }
        _ => {
            let (expr, kind, bare) = arg_expr(&f, d);
            let pos = if d.chance(50) { String::new() } else { "0".to_string() };
            Refer { pos, args: vec![format!("k = {expr}")], value: expr, inline: false, bare_field: bare, kind, label: "arg=named_by_position" }
        }
    }
}

fn bare_tys(k: K) -> Vec<&'static str> {
    k.tys().iter().copied().filter(|t| *t != "x?" && *t != "X?").collect()
}

/// expression of type `&dyn Trait` for the denoted value inside `__exp`/`__ref`
fn value_ref(r: &Refer) -> String {
    if r.inline {
        // the field itself
        r.value.clone()
    } else {
        format!("&({})", r.value)
    }
}

fn attr_args(lit: &str, args: &[String]) -> String {
    if args.is_empty() {
        lit_tok(lit)
    } else {
        format!("{}, {}", lit_tok(lit), args.join(", "))
    }
}

// ------------------------------------------------------------------------------------------------
// classes

fn build_implicit(d: &mut Dice) -> GenCase {
    // the eight Display-like traits (attribute-less Debug is C06)
    let tr_idx = [0usize, 2, 3, 4, 5, 6, 7, 8][d.pick(8)];
    let (tr, _, tr_ty) = FMT_TRAITS[tr_idx];
    let kinds: &[K] = match tr {
        "Display" => &[K::Int, K::Str, K::Float, K::Ptr, K::Size],
        "LowerExp" | "UpperExp" => &[K::Int, K::Float, K::Size],
        "Pointer" => &[K::Ptr],
        _ => &[K::Int, K::Size],
    };
    let kind = kinds[d.pick(kinds.len())];
    let named = d.chance(50);
    let (name, member) = if named {
        let n = ["field", "a", "inner", "x", "r#fn"][d.pick(5)].to_string();
        (n.clone(), n)
    } else {
        ("_0".to_string(), "0".to_string())
    };
    let field = Field { name, member, kind };
    let vi = d.pick(8);
    let value = kind.value(vi, d);
    let is_enum = d.chance(40);
    // an attribute-less variant of an enum that has a non-`_variant` enum-level format: that format is the variant's
    // format (display.md, "Default enum format"), an attribute-driven case that is not a bare placeholder => inert
    let under_default = is_enum && d.chance(25);
    // an attribute-less variant of an enum whose enum-level format mentions `_variant`: the format wraps the text the
    // variant prints by itself (C07); it is an attribute-driven case whose placeholder refers to neither an argument nor
    // a field => inert. `{_variant}` alone is generated for the non-Display derives only (its placeholder's trait is
    // not the derived one, so nothing can be substituted); for Display the statement does not say whether a bare
    // `{_variant}` counts as "no format at all" (the tree treats it so), hence there only with text around it.
    // Pointer is left out: what "the field's own text" is under `{:p}` depends on the level of reference (C02's clause).
    let under_wrapper = is_enum && !under_default && tr != "Pointer" && d.chance(25);
    let wrapper_bare = under_wrapper && tr != "Display" && d.chance(55);
    let sh = Shape { tr, attr: FMT_TRAITS[tr_idx].1, tr_ty, is_enum, named, fields: vec![field.clone()], values: vec![value], shared_default: false, shared_only: under_default || under_wrapper };
    let g = grid_fn(tr_ty);
    let mut methods = format!("    pub fn __exp(&self) -> Vec<String> {{\n{}        {g}({})\n    }}\n", sh.bindings(), field.name);
    if under_wrapper {
        methods.push_str(&format!("    pub fn __own(&self) -> String {{\n{}        format!(\"{{:{tr_ty}}}\", {})\n    }}\n", sh.bindings(), field.name));
    }
    let mut c = if under_wrapper {
        let (lit, exp) = if wrapper_bare { ("\"{_variant}\"", "v.__own()".to_string()) } else { ("\"<{_variant}>\"", "format!(\"<{}>\", v.__own())".to_string()) };
        let run = format!(
            "    let mut acc = __Acc::new();\n    let plain = format!(\"{{:{tr_ty}}}\", v);\n    acc.same(\"an enum-level `_variant` format wraps the text the attribute-less single-field variant prints by itself\", &{exp}, &plain);\n    acc.inert({tr_ty:?}, &{g}(&v), &plain, &v.__exp());\n    acc.finish(o);\n"
        );
        GenCase::new(sh.render(Some(lit), &methods, &run))
    } else if under_default {
        let run = format!(
            "    let mut acc = __Acc::new();\n    let plain = format!(\"{{:{tr_ty}}}\", v);\n    acc.same(\"an attribute-less variant prints the enum-level default format\", \"<shared default>\", &plain);\n    acc.inert({tr_ty:?}, &{g}(&v), &plain, &v.__exp());\n    acc.finish(o);\n"
        );
        GenCase::new(sh.render(Some("\"<shared default>\""), &methods, &run))
    } else {
        let run = format!("    let mut acc = __Acc::new();\n    acc.subst({tr_ty:?}, &{g}(&v), &v.__exp(), None);\n    acc.finish(o);\n");
        GenCase::new(sh.render(None, &methods, &run))
    };
    c.labels = vec!["class=implicit".into(), format!("trait={tr}"), format!("kind={}", if sh.is_enum { "enum" } else { "struct" }), format!("value={kind:?}")];
    if under_default {
        c.labels.push("implicit_under_enum_level_default".into());
    }
    if under_wrapper {
        c.labels.push("implicit_under_enum_level_variant_wrapper".into());
        if wrapper_bare {
            c.labels.push("bare_variant_wrapper_under_non_display_derive".into());
        }
    }
    if field.name.starts_with("r#") {
        c.labels.push("raw_identifier_field".into());
    }
    c.nontrivial = true;
    c.meta = json!({"class": "implicit"});
    c
}

fn build_subst(d: &mut Dice) -> GenCase {
    if d.chance(6) {
        return build_subst_const(d);
    }
    let tr_idx = d.pick(9);
    let sh = gen_shape(d, 1, 3, tr_idx);
    let r = gen_refer(d, &sh);
    let tys = bare_tys(r.kind);
    let ty = tys[d.pick(tys.len())];
    // std::fmt allows whitespace before the closing brace; it is no modifier
    let ws = if d.chance(8) { " " } else { "" };
    // ... and between the argument and the colon (`{_0 :x}`)
    let ws_colon = if !ty.is_empty() && !r.pos.is_empty() && d.chance(6) { " " } else { "" };
    // `{:}` / `{_0:}`: a colon followed by an empty spec is still a bare placeholder
    let empty_spec = ty.is_empty() && d.chance(15);
    let ws = if empty_spec { "" } else { ws };
    let lit = if ty.is_empty() {
        format!("{{{}{}{ws}}}", r.pos, if empty_spec { ":" } else { "" })
    } else {
        format!("{{{}{ws_colon}:{ty}{ws}}}", r.pos)
    };
    // a trailing comma (after the literal or after the last argument) changes nothing, as for `format!`
    let trailing_comma = d.chance(10);
    let vr = value_ref(&r);
    // recorded defect model: `{:p}` with a bare field binding as argument is delegated as `Pointer::fmt(_0, f)`,
    // which prints the pointer stored in the field (one dereference less than `format!("{:p}", _0)`)
    let ptr_model = ty == "p" && !r.inline && r.bare_field && r.kind == K::Ptr;
    let mut methods = String::new();
    let mut run = String::from("    let mut acc = __Acc::new();\n");
    for (i, outer) in sh.outers().into_iter().enumerate() {
        // the placeholder's trait decides; the debug-hex flag of the caller only exists for Debug
        let g_exp = if ty == "?" && outer.ends_with('?') { grid_fn(outer) } else { grid_fn(ty) };
        let _ = write!(methods, "    pub fn __exp{i}(&self) -> Vec<String> {{\n{}        {g_exp}({vr})\n    }}\n", sh.bindings());
        if ptr_model {
            let _ = write!(methods, "    pub fn __model{i}(&self) -> Vec<String> {{\n{}        {g_exp}(&(*{}))\n    }}\n", sh.bindings(), r.value);
            let _ = writeln!(run, "    acc.subst({outer:?}, &{}(&v), &v.__exp{i}(), Some(({SIG_PTR:?}, &v.__model{i}())));", grid_fn(outer));
        } else {
            let _ = writeln!(run, "    acc.subst({outer:?}, &{}(&v), &v.__exp{i}(), None);", grid_fn(outer));
        }
    }
    run.push_str("    acc.finish(o);\n");
    let mut aa = attr_args(&lit, &r.args);
    if trailing_comma {
        aa.push(',');
    }
    let mut c = GenCase::new(sh.render(Some(&aa), &methods, &run));
    c.labels = vec![
        "class=subst".into(),
        format!("trait={}", sh.tr),
        format!("kind={}", if sh.is_enum { "enum" } else { "struct" }),
        (if sh.shared_default { "enum_level_default_format" } else { "no_enum_level_format" }).to_string(),
        format!("placeholder_type={}", if ty.is_empty() { "display" } else { ty }),
        r.label.into(),
    ];
    if sh.is_enum && sh.shared_only {
        c.labels.push("enum_level_format_under_test".into());
        c.labels.push("subst_enum_level_bare_placeholder".into());
    }
    push_raw_labels(&mut c.labels, &sh, &lit);
    if !r.bare_field {
        c.labels.push("expression_argument".into());
    }
    if ptr_model {
        c.labels.push("pointer_with_bare_field_argument".into());
    }
    if !ws.is_empty() {
        c.labels.push("placeholder_trailing_whitespace".into());
    }
    if !ws_colon.is_empty() {
        c.labels.push("placeholder_whitespace_before_colon".into());
    }
    if empty_spec {
        c.labels.push("empty_spec_after_colon".into());
    }
    if trailing_comma {
        c.labels.push("trailing_comma".into());
    }
    // `format_args!` ignores every flag by itself: pass-through is not observable there
    c.nontrivial = !r.value.contains("format_args!");
    c.meta = json!({"class": "subst", "literal": lit, "ptr_model": ptr_model});
    c
}

/// labels for raw-identifier fields: present in the shape / named (unraw'd) inside the literal
fn push_raw_labels(labels: &mut Vec<String>, sh: &Shape, lit: &str) {
    if let Some(f) = sh.fields.iter().find(|f| f.name.starts_with("r#")) {
        labels.push("raw_identifier_field".into());
        let n = unraw(&f.name);
        if lit.contains(&format!("{{{n}}}")) || lit.contains(&format!("{{{n}:")) || lit.contains(&format!("{{{n} ")) {
            labels.push("raw_identifier_in_placeholder".into());
        }
    }
}

/// a field-less struct / variant whose bare placeholder refers to its only argument, a constant expression
fn build_subst_const(d: &mut Dice) -> GenCase {
    let tr_idx = d.pick(9);
    let (tr, attr, tr_ty) = FMT_TRAITS[tr_idx];
    let is_enum = d.chance(30);
    let (expr, kind) = [("7i32", K::Int), ("\"x\"", K::Str), ("1.5f64", K::Float), ("255usize", K::Size), ("&N0", K::Ptr)][d.pick(5)];
    let tys = bare_tys(kind);
    let ty = tys[d.pick(tys.len())];
    let (pos, arg) = match d.pick(3) {
        0 => (String::new(), expr.to_string()),
        1 => ("0".to_string(), expr.to_string()),
        _ => ("k".to_string(), format!("k = {expr}")),
    };
    let lit = if ty.is_empty() { format!("{{{pos}}}") } else { format!("{{{pos}:{ty}}}") };
    let outers: Vec<&str> = if tr == "Debug" { vec!["?", "x?", "X?"] } else { vec![tr_ty] };
    let mut run = String::from("    let mut acc = __Acc::new();\n");
    for outer in &outers {
        let g_exp = if ty == "?" && outer.ends_with('?') { grid_fn(outer) } else { grid_fn(ty) };
        let _ = writeln!(run, "    acc.subst({outer:?}, &{}(&v), &{g_exp}(&({expr})), None);", grid_fn(outer));
    }
    run.push_str("    acc.finish(o);\n");
    let aa = attr_args(&lit, &[arg]);
    let body = if is_enum {
        format!("#[derive(derive_more::{tr})]\npub enum T {{\n    #[{attr}({aa})]\n    V,\n    #[{attr}(\"other\")]\n    Other,\n}}\npub fn run(o: &mut Out) {{\n    let v = T::V;\n{run}}}\n")
    } else {
        format!("#[derive(derive_more::{tr})]\n#[{attr}({aa})]\npub struct T;\npub fn run(o: &mut Out) {{\n    let v = T;\n{run}}}\n")
    };
    let mut c = GenCase::new(body);
    c.labels = vec![
        "class=subst".into(),
        "field_less_type_constant_argument".into(),
        format!("trait={tr}"),
        format!("kind={}", if is_enum { "enum" } else { "struct" }),
        format!("placeholder_type={}", if ty.is_empty() { "display" } else { ty }),
    ];
    c.nontrivial = true;
    c.meta = json!({"class": "subst", "literal": lit, "ptr_model": false});
    c
}

/// one placeholder with exactly one modifier of the given kind
fn one_modifier(d: &mut Dice, kind: K, which: usize) -> (Spec, &'static str) {
    let tys = bare_tys(kind);
    let mut s = Spec::bare(tys[d.pick(tys.len())]);
    let label = match which {
        0 => {
            s.align = Some(*d.choose(&['<', '^', '>']));
            "align"
        }
        1 => {
            s.fill = Some(*d.choose(&['*', '0', ' ', 'é']));
            s.align = Some(*d.choose(&['<', '^', '>']));
            "fill"
        }
        2 => {
            s.sign = Some(*d.choose(&['+', '-']));
            "sign"
        }
        3 => {
            s.alt = true;
            "alternate"
        }
        4 => {
            s.zero = true;
            "zero"
        }
        5 => {
            s.width = Cnt::Int(d.range(1, 9));
            "width"
        }
        6 => {
            s.prec = Cnt::Int(d.range(0, 5));
            "precision"
        }
        _ => {
            s.ty = if d.chance(50) { "x?".into() } else { "X?".into() };
            "debug_hex"
        }
    };
    (s, label)
}

fn build_inert(d: &mut Dice) -> GenCase {
    let tr_idx = d.pick(9);
    let sh = gen_shape(d, 1, 3, tr_idx);
    let mut labels = vec!["class=inert".to_string(), format!("trait={}", sh.tr), format!("kind={}", if sh.is_enum { "enum" } else { "struct" })];
    if sh.shared_default {
        labels.push("enum_level_default_format".into());
    }
    let mut lit = String::new();
    let mut args: Vec<String> = vec![];
    // (value expression, inline, kind, type letters) of the first placeholder: used to measure flag sensitivity
    let mut first: Option<(Refer, String)> = None;
    let mut inline_names: Vec<String> = vec![];
    let form = d.weighted(&[40, 25, 25, 10]);
    match form {
        0 => {
            // one placeholder, exactly one modifier
            let which = d.pick(9);
            if which == 8 {
                // width taken from an argument or a field (`N$`, `name$`): a modifier exactly like a literal width
                labels.push("modifier=count_parameter".into());
                labels.push("one_modifier".into());
                let size = sh.fields.iter().find(|f| f.kind == K::Size).cloned();
                match (size, d.pick(3)) {
                    (Some(w), 0) => {
                        // the only argument is both the value and its own width
                        lit = "{0:0$}".into();
                        let e = format!("*{}", w.name);
                        args = vec![e.clone()];
                        first = Some((Refer { pos: "0".into(), args: vec![], value: e, inline: false, bare_field: false, kind: K::Size, label: "" }, String::new()));
                    }
                    (Some(w), 1) => {
                        lit = "{k:k$}".into();
                        let e = format!("*{}", w.name);
                        args = vec![format!("k = {e}")];
                        first = Some((Refer { pos: "k".into(), args: vec![], value: e, inline: false, bare_field: false, kind: K::Size, label: "" }, String::new()));
                    }
                    (Some(w), _) => {
                        // a field named in the literal, its width another (or the same) `usize` field named in the literal
                        let g = sh.fields[d.pick(sh.fields.len())].clone();
                        let tys = bare_tys(g.kind);
                        let ty = tys[d.pick(tys.len())];
                        lit = format!("{{{}:{}${ty}}}", unraw(&g.name), unraw(&w.name));
                        inline_names.push(g.name.clone());
                        if g.name != w.name {
                            inline_names.push(w.name.clone());
                        }
                        labels.push("count_parameter_is_field_named_in_literal".into());
                        first = Some((Refer { pos: unraw(&g.name), args: vec![], value: g.name.clone(), inline: true, bare_field: true, kind: g.kind, label: "" }, ty.to_string()));
                    }
                    (None, _) => {
                        let f = sh.fields[d.pick(sh.fields.len())].clone();
                        let (expr, kind, bare) = arg_expr(&f, d);
                        let tys = bare_tys(kind);
                        let ty = tys[d.pick(tys.len())];
                        lit = format!("{{0:1${ty}}}");
                        args = vec![expr.clone(), "4usize".to_string()];
                        first = Some((Refer { pos: "0".into(), args: vec![], value: expr, inline: false, bare_field: bare, kind, label: "" }, ty.to_string()));
                    }
                }
            } else {
                let r = gen_refer(d, &sh);
                let (spec, l) = one_modifier(d, r.kind, which);
                labels.push(format!("modifier={l}"));
                labels.push("one_modifier".into());
                let _ = write!(lit, "{{{}:{}}}", r.pos, spec.render());
                args = r.args.clone();
                if r.inline {
                    inline_names.push(r.value.clone());
                }
                first = Some((r, spec.render()));
            }
        }
        1 => {
            // bare placeholder plus text / escape
            let r = gen_refer(d, &sh);
            let tys = bare_tys(r.kind);
            let ty = tys[d.pick(tys.len())];
            let ph = if ty.is_empty() { format!("{{{}}}", r.pos) } else { format!("{{{}:{ty}}}", r.pos) };
            let text = ["x", " ", "{{", "}}", "é", "\n", "{{}}"][d.pick(7)];
            lit = if d.chance(50) { format!("{text}{ph}") } else { format!("{ph}{text}") };
            labels.push("surrounding_text".into());
            if text.contains('{') || text.contains('}') {
                labels.push("escape".into());
            }
            args = r.args.clone();
            if r.inline {
                inline_names.push(r.value.clone());
            }
            first = Some((r, ty.to_string()));
        }
        2 => {
            // two placeholders
            labels.push("two_placeholders".into());
            match d.pick(4) {
                0 => {
                    // the same single argument twice
                    let f = sh.fields[d.pick(sh.fields.len())].clone();
                    let (expr, kind, bare) = arg_expr(&f, d);
                    let tys = bare_tys(kind);
                    let ty = tys[d.pick(tys.len())];
                    let tail = if ty.is_empty() { String::new() } else { format!(":{ty}") };
                    lit = format!("{{0{tail}}}{{0{tail}}}");
                    args = vec![expr.clone()];
                    first = Some((Refer { pos: "0".into(), args: vec![], value: expr, inline: false, bare_field: bare, kind, label: "" }, ty.to_string()));
                }
                1 => {
                    // the same field twice by name
                    let f = sh.fields[d.pick(sh.fields.len())].clone();
                    let tys = bare_tys(f.kind);
                    let ty = tys[d.pick(tys.len())];
                    let tail = if ty.is_empty() { String::new() } else { format!(":{ty}") };
                    lit = format!("{{{0}{tail}}}{{{0}{tail}}}", unraw(&f.name));
                    inline_names.push(f.name.clone());
                    first = Some((Refer { pos: unraw(&f.name), args: vec![], value: f.name.clone(), inline: true, bare_field: true, kind: f.kind, label: "" }, ty.to_string()));
                }
                _ => {
                    // two implicit positional arguments
                    for j in 0..2 {
                        let f = sh.fields[d.pick(sh.fields.len())].clone();
                        let (expr, kind, bare) = arg_expr(&f, d);
                        let tys = bare_tys(kind);
                        let ty = tys[d.pick(tys.len())];
                        let _ = write!(lit, "{}", if ty.is_empty() { "{}".to_string() } else { format!("{{:{ty}}}") });
                        args.push(expr.clone());
                        if j == 0 {
                            first = Some((Refer { pos: String::new(), args: vec![], value: expr, inline: false, bare_field: bare, kind, label: "" }, ty.to_string()));
                        }
                    }
                }
            }
        }
        _ => {
            labels.push("no_placeholder".into());
            lit = ["text", "", "{{}}", "é→ "][d.pick(4)].to_string();
        }
    }
    // reference: plain format! with the identical literal and arguments; fields named in the literal are the fields themselves
    let mut ref_args = args.clone();
    for n in &inline_names {
        if !ref_args.iter().any(|a| a.starts_with(&format!("{n} = "))) {
            ref_args.push(format!("{n} = *{n}"));
        }
    }
    let ref_call = if ref_args.is_empty() { format!("format!({})", lit_tok(&lit)) } else { format!("format!({}, {})", lit_tok(&lit), ref_args.join(", ")) };
    let mut methods = format!("    pub fn __ref(&self) -> String {{\n{}        {ref_call}\n    }}\n", sh.bindings());
    // sensitivity probe: the outer spec applied directly to the first argument under its own (bare) trait
    let sens_ty: String = first.as_ref().map(|(_, t)| bare_of(t)).unwrap_or_default();
    match &first {
        Some((r, _)) => {
            let _ = write!(methods, "    pub fn __sens(&self) -> Vec<String> {{\n{}        {}({})\n    }}\n", sh.bindings(), grid_fn(&sens_ty), value_ref(r));
        }
        None => {
            let _ = write!(methods, "    pub fn __sens(&self) -> Vec<String> {{ vec![String::new(); __SPECS.len()] }}\n");
        }
    }
    let mut run = String::from("    let mut acc = __Acc::new();\n    let sens = v.__sens();\n");
    let plain_ty = sh.outers()[0];
    let _ = writeln!(run, "    let plain = format!(\"{{:{plain_ty}}}\", v);\n    acc.same(\"derived == format!(literal, args)\", &v.__ref(), &plain);");
    for outer in sh.outers() {
        let _ = writeln!(run, "    acc.inert({outer:?}, &{}(&v), &plain, &sens);", grid_fn(outer));
    }
    run.push_str("    acc.finish(o);\n");
    let mut c = GenCase::new(sh.render(Some(&attr_args(&lit, &args)), &methods, &run));
    c.nontrivial = first.as_ref().is_some_and(|(r, _)| !r.value.contains("format_args!"));
    if let Some((r, _)) = &first {
        if !r.bare_field {
            labels.push("expression_argument".into());
        }
        if !r.label.is_empty() {
            labels.push(r.label.to_string());
        }
    }
    if sh.is_enum && sh.shared_only {
        labels.push("enum_level_format_under_test".into());
        labels.push("inert_enum_level_default".into());
    }
    push_raw_labels(&mut labels, &sh, &lit);
    c.labels = labels;
    c.meta = json!({"class": "inert", "literal": lit});
    c
}

/// the bare type letter of a rendered spec (`x?` -> `?`; modifiers dropped)
fn bare_of(spec_or_ty: &str) -> String {
    for t in ["x?", "X?"] {
        if spec_or_ty.ends_with(t) {
            return "?".into();
        }
    }
    for t in ["?", "o", "x", "X", "p", "b", "e", "E"] {
        if spec_or_ty.ends_with(t) {
            return t.into();
        }
    }
    String::new()
}

fn build_negative(d: &mut Dice) -> GenCase {
    let tr_idx = d.pick(9);
    let sh = gen_shape(d, 1, 3, tr_idx);
    let f = sh.fields[d.pick(sh.fields.len())].clone();
    let (expr, kind, _) = arg_expr(&f, d);
    let tys = bare_tys(kind);
    let ty = tys[d.pick(tys.len())];
    let tail = if ty.is_empty() { String::new() } else { format!(":{ty}") };
    let arg1 = if d.chance(25) { format!("k = {expr}") } else { expr.clone() };
    let (lit, args, label, single): (String, Vec<String>, &str, bool) = match d.weighted(&[40, 15, 12, 13, 10, 10]) {
        0 => {
            // index out of range with exactly one argument, bare placeholder
            let idx = ["1", "2", "70000", "18446744073709551615"][d.weighted(&[5, 2, 2, 1])];
            (format!("{{{idx}{tail}}}"), vec![arg1], "neg=index_out_of_range_one_argument", true)
        }
        1 => (format!("{{{}{tail}}}", ["0", "", "1"][d.pick(3)]), vec![], "neg=index_without_arguments", false),
        2 => {
            let f2 = sh.fields[d.pick(sh.fields.len())].clone();
            let (e2, _, _) = arg_expr(&f2, d);
            (format!("{{0}}{{1}}{{2{tail}}}"), vec![f.name.clone(), e2], "neg=index_out_of_range_two_arguments", false)
        }
        3 => (format!("{{1:>5}}"), vec![arg1], "neg=index_out_of_range_with_modifier", false),
        4 => {
            let f2 = sh.fields[d.pick(sh.fields.len())].clone();
            (format!("{{{tail}}}"), vec![expr.clone(), f2.name.clone()], "neg=unused_positional_argument", false)
        }
        _ => (format!("{{{}}}", unraw(&f.name)), vec![format!("zz = {}", f.name)], "neg=unused_named_argument", false),
    };
    let single_model = single;
    let mut c = GenCase::new(sh.render(Some(&attr_args(&lit, &args)), "", "    let _ = (o, v);\n"));
    c.expect_compile = false;
    c.runnable = false;
    c.labels = vec!["class=negative".into(), label.into(), format!("trait={}", sh.tr), format!("kind={}", if sh.is_enum { "enum" } else { "struct" })];
    c.nontrivial = true;
    c.meta = json!({"class": "negative", "literal": lit, "single_arg_bare_out_of_range": single_model, "nargs": args.len(), "attr": sh.attr});
    if sh.is_enum && sh.shared_only {
        c.labels.push("enum_level_format_under_test".into());
    }
    c
}

fn build(d: &mut Dice) -> GenCase {
    match d.weighted(&[10, 36, 38, 16]) {
        0 => build_implicit(d),
        1 => build_subst(d),
        2 => build_inert(d),
        _ => build_negative(d),
    }
}

fn classify(c: &GenCase, r: &CaseResult, f: &Finding) -> Option<String> {
    if !c.expect_compile {
        // defect model: with exactly one argument and a bare placeholder the index is never looked at, the
        // attribute is turned into a delegation to that argument and therefore compiles
        if r.compiled && c.meta["single_arg_bare_out_of_range"] == json!(true) && c.meta["nargs"] == json!(1) {
            return Some(SIG_INDEX.to_string());
        }
        return None;
    }
    let rest = f.summary.strip_prefix("run-time oracle failed: [")?;
    let (sig, _) = rest.split_once(']')?;
    (sig == SIG_PTR && c.meta["ptr_model"] == json!(true)).then(|| SIG_PTR.to_string())
}

pub fn prop() -> DiceProp {
    let ns = spec_grid().len();
    DiceProp {
        crate_name: "gen_c05",
        prelude: prelude(),
        crate_attrs: String::new(),
        nightly: false,
        check_only: false,
        ndice: 96,
        quick: (2500, 1),
        thorough: (4000, 8),
        build,
        fixed: no_fixed,
        classify,
        rule: format!(
            "struct / enum variant with 1..3 fields (i32, f64, &str, &i32, usize; positional or named) deriving one of the 9 fmt traits; classes: implicit (8 Display-like traits, single field, no attribute), subst (literal = one bare placeholder in any of the 9 placeholder traits naming a field, its only positional argument as `{{}}`/`{{0}}`, its only named argument by name or by position; argument = field, expression, method call, format_args!), inert (one placeholder with exactly one of align / fill / sign / # / 0 / width / precision / x? / X?; bare placeholder plus text or escape; two placeholders; none), negative (index out of range with 0, 1, 2 arguments, unused positional / named argument); every runnable case is evaluated under {ns} outer specs (each single modifier, all-pairs over fill+align x sign x # x 0 x width x precision, 40 fixed random; for derive(Debug) under ?, x? and X?): subst/implicit must equal the same spec applied to the argument under the placeholder's trait, inert must equal the flag-free output which must equal format!(literal, args); additional classes: the format under test written on the enum for an attribute-less variant (subst and inert), attribute-less variant under an enum-level default (inert), attribute-less single-field variant under an enum-level `{{_variant}}` (non-Display derives) / `<{{_variant}}>` wrapper (wrapped text of the field, inert), raw-identifier fields named in the literal / used as alias, `{{:}}` empty spec, whitespace before the colon, trailing commas, `N$`/`name$` width parameters as the one modifier, field-less types with a constant argument; negative cases must be rejected with a diagnostic about format arguments; non-trivial = the argument is not a format_args! (which ignores flags itself): the grid always contains specs that change its text (measured per case as `sensitive`); distinct by program text"
        ),
        assumptions: vec![
            "format! of the installed stable toolchain applied to the argument directly is the reference".into(),
            "names of outer bindings that are not fields (`{CONST}`) are not generated: the statement does not say which class they belong to".into(),
        ],
        floors: vec![
            ("class=implicit".into(), 0.03),
            ("class=subst".into(), 0.25),
            ("class=inert".into(), 0.25),
            ("class=negative".into(), 0.1),
            ("arg=field_by_name".into(), 0.1),
            ("arg=positional_field".into(), 0.03),
            ("arg=positional_expression".into(), 0.08),
            ("arg=named_matching".into(), 0.05),
            ("arg=named_by_position".into(), 0.05),
            ("arg=positional_placeholder_aliased_argument".into(), 0.04),
            ("one_modifier".into(), 0.08),
            ("surrounding_text".into(), 0.05),
            ("two_placeholders".into(), 0.05),
            ("neg=index_out_of_range_one_argument".into(), 0.03),
            ("neg=index_without_arguments".into(), 0.01),
            ("trait=Debug".into(), 0.05),
            ("kind=enum".into(), 0.15),
            ("enum_level_format_under_test".into(), 0.03),
            ("subst_enum_level_bare_placeholder".into(), 0.01),
            ("raw_identifier_in_placeholder".into(), 0.01),
            ("empty_spec_after_colon".into(), 0.005),
            ("implicit_under_enum_level_default".into(), 0.003),
        ],
        shards: 0,
    }
}

/// `DiceProp` plus a control on the negative class: a must-fail case has to be rejected *for the reason it was built
/// for* (rustc's diagnostics about format arguments), not because the generated item is broken in some other way.
pub struct P05(pub DiceProp);

impl ProgProp for P05 {
    type Case = GenCase;
    fn spec(&self, ctx: &super::core::Ctx) -> super::proggen::ProgSpec {
        self.0.spec(ctx)
    }
    fn strategy(&self, ctx: &super::core::Ctx) -> proptest::strategy::BoxedStrategy<GenCase> {
        self.0.strategy(ctx)
    }
    fn budget(&self, tier: super::core::Tier) -> (usize, u32) {
        self.0.budget(tier)
    }
    fn fixed_cases(&self, ctx: &super::core::Ctx) -> Vec<GenCase> {
        self.0.fixed_cases(ctx)
    }
    fn canonical(&self, c: &GenCase) -> String {
        self.0.canonical(c)
    }
    fn nontrivial(&self, c: &GenCase) -> bool {
        self.0.nontrivial(c)
    }
    fn labels(&self, c: &GenCase) -> Vec<String> {
        self.0.labels(c)
    }
    fn render(&self, c: &GenCase) -> super::proggen::CaseSrc {
        self.0.render(c)
    }
    fn render_control(&self, c: &GenCase) -> Option<super::proggen::CaseSrc> {
        self.0.render_control(c)
    }
    fn judge(&self, ctx: &super::core::Ctx, c: &GenCase, r: &CaseResult) -> Vec<Finding> {
        let mut out = self.0.judge(ctx, c, r);
        if !c.expect_compile && !r.compiled {
            // every diagnostic of rustc about a placeholder / argument mismatch speaks of "argument(s)" or of the
            // "format string"; a derive diagnostic about the attribute would mention the attribute's name
            let t = r.error_text().to_lowercase();
            let attr = c.meta["attr"].as_str().unwrap_or("display");
            if !(t.contains("argument") || t.contains("format string") || t.contains(&format!("#[{attr}("))) {
                out.push(Finding {
                    sig: None,
                    summary: format!("generator fault: a negative case is rejected for a reason unrelated to its placeholder/argument mismatch: {}", r.first_error()),
                    expected: "a diagnostic about the format arguments (invalid reference to positional argument / argument never used / ...)".into(),
                    observed: r.error_text(),
                    warnings: vec![],
                });
            }
        }
        out
    }
    fn floors(&self) -> Vec<(String, f64)> {
        self.0.floors()
    }
    fn sample_json(&self, c: &GenCase) -> serde_json::Value {
        self.0.sample_json(c)
    }
    fn rule(&self) -> String {
        self.0.rule()
    }
    fn assumptions(&self) -> Vec<String> {
        self.0.assumptions()
    }
}

pub fn run(ctx: &super::core::Ctx) -> super::core::Report {
    super::progprop::run(&P05(prop()), ctx)
}

pub fn replay(ctx: &super::core::Ctx, case: &serde_json::Value) -> super::core::Report {
    super::progprop::replay(&P05(prop()), ctx, case)
}

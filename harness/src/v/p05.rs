//! C05 — caller's formatting flags pass through exactly for bare-placeholder formats, are inert in every other
//! attribute-driven case, and a placeholder index that denotes no argument is a compile error.
//!
//! Case classes (label `class=..`):
//! * `implicit`  — Display-like derive on a single-field struct/variant without attribute: every outer spec applied
//!                 to the value must print what the same spec prints for the field under the derive's trait;
//! * `subst`     — attribute whose literal is exactly one bare placeholder (optionally with one of the 9 trait
//!                 letters) referring to a field by name, to its only positional argument (`{}` / `{0}`), or to its
//!                 only named argument: every outer spec must print what it prints for that argument under the
//!                 *placeholder's* trait;
//! * `inert`     — every other attribute-driven literal (one modifier of each kind, surrounding text / escapes,
//!                 two placeholders, none): every outer spec must print what `{}` prints, and that is what
//!                 `format!` prints for the same literal and arguments;
//! * `negative`  — placeholder index out of range, unused arguments: must be rejected by rustc.
//! The reference side lives in the generated program (`__exp`/`__ref` methods binding the fields as documented).
use super::lit::{Cnt, Spec};
use super::p02::{arg_expr, gen_fields, Field, FMT_TRAITS, K};
use super::progprop::*;
use super::proggen::CaseResult;
use serde_json::json;
use std::fmt::Write as _;

pub const SIG_INDEX: &str = "c05-index-ignored-single-arg";
pub const SIG_PTR: &str = "c05-pointer-arg-one-deref-less";

// ------------------------------------------------------------------------------------------------
// outer spec grid (without the type letter)

const F_FA: [&str; 10] = ["", "<", "^", ">", "*<", "*^", "*>", "0<", "0^", "0>"];
const F_SIGN: [&str; 3] = ["", "+", "-"];
const F_ALT: [&str; 2] = ["", "#"];
const F_ZERO: [&str; 2] = ["", "0"];
const F_WIDTH: [&str; 4] = ["", "1", "8", "12"];
const F_PREC: [&str; 3] = ["", ".0", ".3"];

/// greedy all-pairs covering array over factors of the given sizes, extending `rows`
fn all_pairs(sizes: &[usize], rows: &mut Vec<Vec<usize>>) {
    let n = sizes.len();
    let mut uncovered: std::collections::BTreeSet<(usize, usize, usize, usize)> = Default::default();
    for i in 0..n {
        for j in i + 1..n {
            for a in 0..sizes[i] {
                for b in 0..sizes[j] {
                    uncovered.insert((i, a, j, b));
                }
            }
        }
    }
    let pairs = |row: &[usize]| -> Vec<(usize, usize, usize, usize)> {
        let mut v = vec![];
        for i in 0..n {
            for j in i + 1..n {
                v.push((i, row[i], j, row[j]));
            }
        }
        v
    };
    for r in rows.iter() {
        for p in pairs(r) {
            uncovered.remove(&p);
        }
    }
    let mut all: Vec<Vec<usize>> = vec![];
    let mut idx = vec![0usize; n];
    'outer: loop {
        all.push(idx.clone());
        for k in (0..n).rev() {
            idx[k] += 1;
            if idx[k] < sizes[k] {
                continue 'outer;
            }
            idx[k] = 0;
        }
        break;
    }
    while !uncovered.is_empty() {
        let mut best = (0usize, 0usize);
        for (k, row) in all.iter().enumerate() {
            let gain = pairs(row).iter().filter(|p| uncovered.contains(p)).count();
            if gain > best.0 {
                best = (gain, k);
            }
        }
        let row = all[best.1].clone();
        for p in pairs(&row) {
            uncovered.remove(&p);
        }
        rows.push(row);
    }
}

pub fn spec_grid() -> Vec<String> {
    let sizes = [F_FA.len(), F_SIGN.len(), F_ALT.len(), F_ZERO.len(), F_WIDTH.len(), F_PREC.len()];
    let mut rows: Vec<Vec<usize>> = vec![vec![0; 6]];
    // every single modifier alone
    for (k, s) in sizes.iter().enumerate() {
        for v in 1..*s {
            let mut r = vec![0; 6];
            r[k] = v;
            rows.push(r);
        }
    }
    // the documentation's examples: {:03} {:07} {:>8} {:+.3} {:#x}
    rows.push(vec![0, 0, 0, 1, 2, 0]);
    rows.push(vec![3, 0, 0, 0, 2, 0]);
    rows.push(vec![0, 1, 0, 0, 0, 2]);
    all_pairs(&sizes, &mut rows);
    let mut x: u64 = 0xD1B54A32D192ED03;
    for _ in 0..40 {
        let mut row = vec![0usize; 6];
        for k in 0..6 {
            x = x.wrapping_mul(6364136223846793005).wrapping_add(1442695040888963407);
            row[k] = ((x >> 33) as usize) % sizes[k];
        }
        rows.push(row);
    }
    let mut seen = std::collections::HashSet::new();
    rows.iter()
        .map(|r| [F_FA[r[0]], F_SIGN[r[1]], F_ALT[r[2]], F_ZERO[r[3]], F_WIDTH[r[4]], F_PREC[r[5]]].concat())
        .filter(|s| seen.insert(s.clone()))
        .collect()
}

/// (type letters, grid function, trait path)
const GRIDS: [(&str, &str, &str); 11] = [
    ("", "__g_display", "Display"),
    ("?", "__g_debug", "Debug"),
    ("x?", "__g_debug_lx", "Debug"),
    ("X?", "__g_debug_ux", "Debug"),
    ("b", "__g_binary", "Binary"),
    ("o", "__g_octal", "Octal"),
    ("x", "__g_lower_hex", "LowerHex"),
    ("X", "__g_upper_hex", "UpperHex"),
    ("e", "__g_lower_exp", "LowerExp"),
    ("E", "__g_upper_exp", "UpperExp"),
    ("p", "__g_pointer", "Pointer"),
];

fn grid_fn(ty: &str) -> &'static str {
    GRIDS.iter().find(|g| g.0 == ty).map(|g| g.1).unwrap_or("__g_display")
}

pub fn prelude() -> String {
    let specs = spec_grid();
    let mut s = String::from(super::p02::PRELUDE);
    s.push_str("pub struct __P<'a>(pub &'a dyn std::fmt::Pointer);\nimpl std::fmt::Pointer for __P<'_> { fn fmt(&self, f: &mut std::fmt::Formatter<'_>) -> std::fmt::Result { std::fmt::Pointer::fmt(self.0, f) } }\n");
    let _ = writeln!(s, "pub const __SPECS: [&str; {}] = [{}];", specs.len(), specs.iter().map(|g| format!("{g:?}")).collect::<Vec<_>>().join(", "));
    for (ty, name, tr) in GRIDS {
        let _ = writeln!(s, "pub fn {name}(v: &dyn std::fmt::{tr}) -> Vec<String> {{\n    vec![");
        for sp in &specs {
            let lit = format!("{{:{sp}{ty}}}");
            // Pointer: the object's own impl (`&T: Pointer` would print the address of the reference instead)
            let _ = writeln!(s, "        format!({lit:?}, {}),", if ty == "p" { "__P(v)" } else { "v" });
        }
        s.push_str("    ]\n}\n");
    }
    s.push_str(
        r#"
pub struct __Acc { unknown: Vec<(String, String, String)>, known: Vec<(String, String, String)>, compared: u64, sensitive: u64 }
impl __Acc {
    pub fn new() -> __Acc { __Acc { unknown: Vec::new(), known: Vec::new(), compared: 0, sensitive: 0 } }
    /// pass-through: `obs[k]` (outer spec k applied to the derived value) must equal `exp[k]` (the same spec applied
    /// to the argument under the placeholder's trait); `model` = (signature, what a recorded defect predicts)
    pub fn subst(&mut self, outer: &str, obs: &[String], exp: &[String], model: Option<(&str, &[String])>) {
        for k in 0..obs.len() {
            self.compared += 1;
            if exp[k] != exp[0] { self.sensitive += 1; }
            if obs[k] == exp[k] { continue; }
            let what = format!("caller's `{{:{}{}}}` must apply to the argument", __SPECS[k], outer);
            match model {
                Some((sig, m)) if m[k] == obs[k] => { if self.known.is_empty() { self.known.push((format!("[{sig}] {what}"), exp[k].clone(), obs[k].clone())); } }
                _ => { if self.unknown.len() < 6 { self.unknown.push((what, exp[k].clone(), obs[k].clone())); } }
            }
        }
    }
    /// inert: every outer spec prints what the flag-free spec prints; `sens[k]` = the spec applied to the first
    /// argument directly (only to measure that the flag would have changed something)
    pub fn inert(&mut self, outer: &str, obs: &[String], plain: &str, sens: &[String]) {
        for k in 0..obs.len() {
            self.compared += 1;
            if sens[k] != sens[0] { self.sensitive += 1; }
            if obs[k] == plain { continue; }
            if self.unknown.len() < 6 {
                self.unknown.push((format!("caller's `{{:{}{}}}` must leave the output of a non-substitutable format unchanged", __SPECS[k], outer), plain.to_string(), obs[k].clone()));
            }
        }
    }
    pub fn same(&mut self, what: &str, exp: &str, obs: &str) {
        self.compared += 1;
        if exp != obs && self.unknown.len() < 6 { self.unknown.push((what.to_string(), exp.to_string(), obs.to_string())); }
    }
    pub fn finish(self, o: &mut Out) {
        for (w, e, ob) in &self.unknown { o.fail(w, e, ob); }
        for (w, e, ob) in &self.known { o.fail(w, e, ob); }
        o.put("compared", &self.compared.to_string());
        o.put("sensitive", &self.sensitive.to_string());
    }
}
"#,
    );
    s
}

// ------------------------------------------------------------------------------------------------
// shapes

struct Shape {
    tr: &'static str,
    attr: &'static str,
    tr_ty: &'static str,
    is_enum: bool,
    named: bool,
    fields: Vec<Field>,
    values: Vec<String>,
    /// the enum also carries an enum-level format that does not mention `_variant`: it is only a default for variants
    /// without an attribute of their own (C07), so it must not change anything for the variant under test
    shared_default: bool,
}

impl Shape {
    fn decl(&self) -> String {
        if self.named {
            format!("{{ {} }}", self.fields.iter().map(|f| format!("{}: {}", f.member, f.kind.ty())).collect::<Vec<_>>().join(", "))
        } else {
            format!("({})", self.fields.iter().map(|f| f.kind.ty().to_string()).collect::<Vec<_>>().join(", "))
        }
    }
    fn ctor(&self) -> String {
        if self.named {
            format!("{{ {} }}", self.fields.iter().zip(&self.values).map(|(f, v)| format!("{}: {v}", f.member)).collect::<Vec<_>>().join(", "))
        } else {
            format!("({})", self.values.join(", "))
        }
    }
    fn pat(&self) -> String {
        let names = self.fields.iter().map(|f| f.name.clone()).collect::<Vec<_>>().join(", ");
        if self.named {
            format!("{{ {names} }}")
        } else {
            format!("({names})")
        }
    }
    /// statements binding the fields the way the documentation says (`_0`/names are references to the fields)
    fn bindings(&self) -> String {
        if self.is_enum {
            format!("        let T::V{} = self else {{ unreachable!() }};\n", self.pat())
        } else {
            self.fields.iter().map(|f| format!("        let {} = &self.{};\n", f.name, f.member)).collect()
        }
    }
    fn render(&self, attr_line: Option<&str>, methods: &str, run_body: &str) -> String {
        let tr = self.tr;
        let attr = self.attr;
        let decl = self.decl();
        let ctor = self.ctor();
        let al = attr_line.map(|a| format!("#[{attr}({a})]")).unwrap_or_default();
        let imp = format!("impl T {{\n    pub fn tag(&self) -> u32 {{ 7 }}\n{methods}}}\n");
        if self.is_enum {
            let shared = if self.shared_default && attr_line.is_some() { format!("#[{attr}(\"<shared default>\")]\n") } else { String::new() };
            format!(
                "#[derive(derive_more::{tr})]\n{shared}pub enum T {{\n    {al}\n    V{decl},\n    #[{attr}(\"other\")]\n    Other,\n}}\n{imp}pub fn run(o: &mut Out) {{\n    let v = T::V{ctor};\n{run_body}}}\n"
            )
        } else {
            let semi = if self.named { "" } else { ";" };
            format!("#[derive(derive_more::{tr})]\n{al}\npub struct T{decl}{semi}\n{imp}pub fn run(o: &mut Out) {{\n    let v = T{ctor};\n{run_body}}}\n")
        }
    }
    /// outer type letters under which the derived value can be formatted
    fn outers(&self) -> Vec<&'static str> {
        if self.tr == "Debug" {
            vec!["?", "x?", "X?"]
        } else {
            vec![self.tr_ty]
        }
    }
}

fn gen_shape(d: &mut Dice, min: usize, max: usize, tr_idx: usize) -> Shape {
    let (tr, attr, tr_ty) = FMT_TRAITS[tr_idx];
    let is_enum = d.chance(30);
    let (named, fields) = gen_fields(d, min, max);
    let values = fields.iter().enumerate().map(|(i, f)| f.kind.value(i, d)).collect();
    let shared_default = is_enum && attr != "debug" && d.chance(35);
    Shape { tr, attr, tr_ty, is_enum, named, fields, values, shared_default }
}

fn lit_tok(s: &str) -> String {
    proc_macro2::Literal::string(s).to_string()
}

/// how one placeholder refers to its value
#[derive(Clone, Debug)]
struct Refer {
    /// text before the `:` inside the braces
    pos: String,
    /// attribute arguments (`expr` / `alias = expr`)
    args: Vec<String>,
    /// the expression the placeholder denotes, in terms of the bindings (for a field named directly: the binding)
    value: String,
    /// a field named directly in the literal (the field itself, not the reference)
    inline: bool,
    /// the argument is a bare field binding
    bare_field: bool,
    kind: K,
    label: &'static str,
}

/// draws one of the argument forms of the statement for a single placeholder
fn gen_refer(d: &mut Dice, sh: &Shape) -> Refer {
    let f = sh.fields[d.pick(sh.fields.len())].clone();
    match d.weighted(&[4, 4, 2, 2]) {
        0 => Refer { pos: f.name.clone(), args: vec![], value: f.name.clone(), inline: true, bare_field: true, kind: f.kind, label: "arg=field_by_name" },
        1 => {
            let (expr, kind, bare) = arg_expr(&f, d);
            let pos = if d.chance(50) { String::new() } else { "0".to_string() };
            Refer { pos, args: vec![expr.clone()], value: expr, inline: false, bare_field: bare, kind, label: if bare { "arg=positional_field" } else { "arg=positional_expression" } }
        }
        2 => {
            let (expr, kind, bare) = arg_expr(&f, d);
            // the alias may shadow a field name
            let alias = if sh.named && d.chance(25) { sh.fields[d.pick(sh.fields.len())].name.clone() } else { ["k", "v", "al"][d.pick(3)].to_string() };
            Refer { pos: alias.clone(), args: vec![format!("{alias} = {expr}")], value: expr, inline: false, bare_field: bare, kind, label: "arg=named_matching" }
        }
        _ => {
            let (expr, kind, bare) = arg_expr(&f, d);
            let pos = if d.chance(50) { String::new() } else { "0".to_string() };
            Refer { pos, args: vec![format!("k = {expr}")], value: expr, inline: false, bare_field: bare, kind, label: "arg=named_by_position" }
        }
    }
}

fn bare_tys(k: K) -> Vec<&'static str> {
    k.tys().iter().copied().filter(|t| *t != "x?" && *t != "X?").collect()
}

/// expression of type `&dyn Trait` for the denoted value inside `__exp`/`__ref`
fn value_ref(r: &Refer) -> String {
    if r.inline {
        // the field itself
        r.value.clone()
    } else {
        format!("&({})", r.value)
    }
}

fn attr_args(lit: &str, args: &[String]) -> String {
    if args.is_empty() {
        lit_tok(lit)
    } else {
        format!("{}, {}", lit_tok(lit), args.join(", "))
    }
}

// ------------------------------------------------------------------------------------------------
// classes

fn build_implicit(d: &mut Dice) -> GenCase {
    // the eight Display-like traits (attribute-less Debug is C06)
    let tr_idx = [0usize, 2, 3, 4, 5, 6, 7, 8][d.pick(8)];
    let (tr, _, tr_ty) = FMT_TRAITS[tr_idx];
    let kinds: &[K] = match tr {
        "Display" => &[K::Int, K::Str, K::Float, K::Ptr, K::Size],
        "LowerExp" | "UpperExp" => &[K::Int, K::Float, K::Size],
        "Pointer" => &[K::Ptr],
        _ => &[K::Int, K::Size],
    };
    let kind = kinds[d.pick(kinds.len())];
    let named = d.chance(50);
    let (name, member) = if named {
        let n = ["field", "a", "inner", "x"][d.pick(4)].to_string();
        (n.clone(), n)
    } else {
        ("_0".to_string(), "0".to_string())
    };
    let field = Field { name, member, kind };
    let vi = d.pick(8);
    let value = kind.value(vi, d);
    let sh = Shape { tr, attr: FMT_TRAITS[tr_idx].1, tr_ty, is_enum: d.chance(40), named, fields: vec![field.clone()], values: vec![value], shared_default: false };
    let g = grid_fn(tr_ty);
    let methods = format!("    pub fn __exp(&self) -> Vec<String> {{\n{}        {g}({})\n    }}\n", sh.bindings(), field.name);
    let run = format!("    let mut acc = __Acc::new();\n    acc.subst({tr_ty:?}, &{g}(&v), &v.__exp(), None);\n    acc.finish(o);\n");
    let mut c = GenCase::new(sh.render(None, &methods, &run));
    c.labels = vec!["class=implicit".into(), format!("trait={tr}"), format!("kind={}", if sh.is_enum { "enum" } else { "struct" }), format!("value={kind:?}")];
    c.nontrivial = true;
    c.meta = json!({"class": "implicit"});
    c
}

fn build_subst(d: &mut Dice) -> GenCase {
    let tr_idx = d.pick(9);
    let sh = gen_shape(d, 1, 3, tr_idx);
    let r = gen_refer(d, &sh);
    let tys = bare_tys(r.kind);
    let ty = tys[d.pick(tys.len())];
    // std::fmt allows whitespace before the closing brace; it is no modifier
    let ws = if d.chance(8) { " " } else { "" };
    let lit = if ty.is_empty() { format!("{{{}{ws}}}", r.pos) } else { format!("{{{}:{ty}{ws}}}", r.pos) };
    let vr = value_ref(&r);
    // recorded defect model: `{:p}` with a bare field binding as argument is delegated as `Pointer::fmt(_0, f)`,
    // which prints the pointer stored in the field (one dereference less than `format!("{:p}", _0)`)
    let ptr_model = ty == "p" && !r.inline && r.bare_field && r.kind == K::Ptr;
    let mut methods = String::new();
    let mut run = String::from("    let mut acc = __Acc::new();\n");
    for (i, outer) in sh.outers().into_iter().enumerate() {
        // the placeholder's trait decides; the debug-hex flag of the caller only exists for Debug
        let g_exp = if ty == "?" && outer.ends_with('?') { grid_fn(outer) } else { grid_fn(ty) };
        let _ = write!(methods, "    pub fn __exp{i}(&self) -> Vec<String> {{\n{}        {g_exp}({vr})\n    }}\n", sh.bindings());
        if ptr_model {
            let _ = write!(methods, "    pub fn __model{i}(&self) -> Vec<String> {{\n{}        {g_exp}(&(*{}))\n    }}\n", sh.bindings(), r.value);
            let _ = writeln!(run, "    acc.subst({outer:?}, &{}(&v), &v.__exp{i}(), Some(({SIG_PTR:?}, &v.__model{i}())));", grid_fn(outer));
        } else {
            let _ = writeln!(run, "    acc.subst({outer:?}, &{}(&v), &v.__exp{i}(), None);", grid_fn(outer));
        }
    }
    run.push_str("    acc.finish(o);\n");
    let mut c = GenCase::new(sh.render(Some(&attr_args(&lit, &r.args)), &methods, &run));
    c.labels = vec![
        "class=subst".into(),
        format!("trait={}", sh.tr),
        format!("kind={}", if sh.is_enum { "enum" } else { "struct" }),
        (if sh.shared_default { "enum_level_default_format" } else { "no_enum_level_format" }).to_string(),
        format!("placeholder_type={}", if ty.is_empty() { "display" } else { ty }),
        r.label.into(),
    ];
    if !r.bare_field {
        c.labels.push("expression_argument".into());
    }
    if ptr_model {
        c.labels.push("pointer_with_bare_field_argument".into());
    }
    if !ws.is_empty() {
        c.labels.push("placeholder_trailing_whitespace".into());
    }
    // `format_args!` ignores every flag by itself: pass-through is not observable there
    c.nontrivial = !r.value.contains("format_args!");
    c.meta = json!({"class": "subst", "literal": lit, "ptr_model": ptr_model});
    c
}

/// one placeholder with exactly one modifier of the given kind
fn one_modifier(d: &mut Dice, kind: K, which: usize) -> (Spec, &'static str) {
    let tys = bare_tys(kind);
    let mut s = Spec::bare(tys[d.pick(tys.len())]);
    let label = match which {
        0 => {
            s.align = Some(*d.choose(&['<', '^', '>']));
            "align"
        }
        1 => {
            s.fill = Some(*d.choose(&['*', '0', ' ', 'é']));
            s.align = Some(*d.choose(&['<', '^', '>']));
            "fill"
        }
        2 => {
            s.sign = Some(*d.choose(&['+', '-']));
            "sign"
        }
        3 => {
            s.alt = true;
            "alternate"
        }
        4 => {
            s.zero = true;
            "zero"
        }
        5 => {
            s.width = Cnt::Int(d.range(1, 9));
            "width"
        }
        6 => {
            s.prec = Cnt::Int(d.range(0, 5));
            "precision"
        }
        _ => {
            s.ty = if d.chance(50) { "x?".into() } else { "X?".into() };
            "debug_hex"
        }
    };
    (s, label)
}

fn build_inert(d: &mut Dice) -> GenCase {
    let tr_idx = d.pick(9);
    let sh = gen_shape(d, 1, 3, tr_idx);
    let mut labels = vec!["class=inert".to_string(), format!("trait={}", sh.tr), format!("kind={}", if sh.is_enum { "enum" } else { "struct" })];
    if sh.shared_default {
        labels.push("enum_level_default_format".into());
    }
    let mut lit = String::new();
    let mut args: Vec<String> = vec![];
    // (value expression, inline, kind, type letters) of the first placeholder: used to measure flag sensitivity
    let mut first: Option<(Refer, String)> = None;
    let mut inline_names: Vec<String> = vec![];
    let form = d.weighted(&[40, 25, 25, 10]);
    match form {
        0 => {
            // one placeholder, exactly one modifier
            let r = gen_refer(d, &sh);
            let which = d.pick(8);
            let (spec, l) = one_modifier(d, r.kind, which);
            labels.push(format!("modifier={l}"));
            labels.push("one_modifier".into());
            let _ = write!(lit, "{{{}:{}}}", r.pos, spec.render());
            args = r.args.clone();
            if r.inline {
                inline_names.push(r.value.clone());
            }
            first = Some((r, spec.render()));
        }
        1 => {
            // bare placeholder plus text / escape
            let r = gen_refer(d, &sh);
            let tys = bare_tys(r.kind);
            let ty = tys[d.pick(tys.len())];
            let ph = if ty.is_empty() { format!("{{{}}}", r.pos) } else { format!("{{{}:{ty}}}", r.pos) };
            let text = ["x", " ", "{{", "}}", "é", "\n", "{{}}"][d.pick(7)];
            lit = if d.chance(50) { format!("{text}{ph}") } else { format!("{ph}{text}") };
            labels.push("surrounding_text".into());
            if text.contains('{') || text.contains('}') {
                labels.push("escape".into());
            }
            args = r.args.clone();
            if r.inline {
                inline_names.push(r.value.clone());
            }
            first = Some((r, ty.to_string()));
        }
        2 => {
            // two placeholders
            labels.push("two_placeholders".into());
            match d.pick(4) {
                0 => {
                    // the same single argument twice
                    let f = sh.fields[d.pick(sh.fields.len())].clone();
                    let (expr, kind, bare) = arg_expr(&f, d);
                    let tys = bare_tys(kind);
                    let ty = tys[d.pick(tys.len())];
                    let tail = if ty.is_empty() { String::new() } else { format!(":{ty}") };
                    lit = format!("{{0{tail}}}{{0{tail}}}");
                    args = vec![expr.clone()];
                    first = Some((Refer { pos: "0".into(), args: vec![], value: expr, inline: false, bare_field: bare, kind, label: "" }, ty.to_string()));
                }
                1 => {
                    // the same field twice by name
                    let f = sh.fields[d.pick(sh.fields.len())].clone();
                    let tys = bare_tys(f.kind);
                    let ty = tys[d.pick(tys.len())];
                    let tail = if ty.is_empty() { String::new() } else { format!(":{ty}") };
                    lit = format!("{{{0}{tail}}}{{{0}{tail}}}", f.name);
                    inline_names.push(f.name.clone());
                    first = Some((Refer { pos: f.name.clone(), args: vec![], value: f.name.clone(), inline: true, bare_field: true, kind: f.kind, label: "" }, ty.to_string()));
                }
                _ => {
                    // two implicit positional arguments
                    for j in 0..2 {
                        let f = sh.fields[d.pick(sh.fields.len())].clone();
                        let (expr, kind, bare) = arg_expr(&f, d);
                        let tys = bare_tys(kind);
                        let ty = tys[d.pick(tys.len())];
                        let _ = write!(lit, "{}", if ty.is_empty() { "{}".to_string() } else { format!("{{:{ty}}}") });
                        args.push(expr.clone());
                        if j == 0 {
                            first = Some((Refer { pos: String::new(), args: vec![], value: expr, inline: false, bare_field: bare, kind, label: "" }, ty.to_string()));
                        }
                    }
                }
            }
        }
        _ => {
            labels.push("no_placeholder".into());
            lit = ["text", "", "{{}}", "é→ "][d.pick(4)].to_string();
        }
    }
    // reference: plain format! with the identical literal and arguments; fields named in the literal are the fields themselves
    let mut ref_args = args.clone();
    for n in &inline_names {
        if !ref_args.iter().any(|a| a.starts_with(&format!("{n} = "))) {
            ref_args.push(format!("{n} = *{n}"));
        }
    }
    let ref_call = if ref_args.is_empty() { format!("format!({})", lit_tok(&lit)) } else { format!("format!({}, {})", lit_tok(&lit), ref_args.join(", ")) };
    let mut methods = format!("    pub fn __ref(&self) -> String {{\n{}        {ref_call}\n    }}\n", sh.bindings());
    // sensitivity probe: the outer spec applied directly to the first argument under its own (bare) trait
    let sens_ty: String = first.as_ref().map(|(_, t)| bare_of(t)).unwrap_or_default();
    match &first {
        Some((r, _)) => {
            let _ = write!(methods, "    pub fn __sens(&self) -> Vec<String> {{\n{}        {}({})\n    }}\n", sh.bindings(), grid_fn(&sens_ty), value_ref(r));
        }
        None => {
            let _ = write!(methods, "    pub fn __sens(&self) -> Vec<String> {{ vec![String::new(); __SPECS.len()] }}\n");
        }
    }
    let mut run = String::from("    let mut acc = __Acc::new();\n    let sens = v.__sens();\n");
    let plain_ty = sh.outers()[0];
    let _ = writeln!(run, "    let plain = format!(\"{{:{plain_ty}}}\", v);\n    acc.same(\"derived == format!(literal, args)\", &v.__ref(), &plain);");
    for outer in sh.outers() {
        let _ = writeln!(run, "    acc.inert({outer:?}, &{}(&v), &plain, &sens);", grid_fn(outer));
    }
    run.push_str("    acc.finish(o);\n");
    let mut c = GenCase::new(sh.render(Some(&attr_args(&lit, &args)), &methods, &run));
    c.nontrivial = first.as_ref().is_some_and(|(r, _)| !r.value.contains("format_args!"));
    if let Some((r, _)) = &first {
        if !r.bare_field {
            labels.push("expression_argument".into());
        }
        if !r.label.is_empty() {
            labels.push(r.label.to_string());
        }
    }
    c.labels = labels;
    c.meta = json!({"class": "inert", "literal": lit});
    c
}

/// the bare type letter of a rendered spec (`x?` -> `?`; modifiers dropped)
fn bare_of(spec_or_ty: &str) -> String {
    for t in ["x?", "X?"] {
        if spec_or_ty.ends_with(t) {
            return "?".into();
        }
    }
    for t in ["?", "o", "x", "X", "p", "b", "e", "E"] {
        if spec_or_ty.ends_with(t) {
            return t.into();
        }
    }
    String::new()
}

fn build_negative(d: &mut Dice) -> GenCase {
    let tr_idx = d.pick(9);
    let sh = gen_shape(d, 1, 3, tr_idx);
    let f = sh.fields[d.pick(sh.fields.len())].clone();
    let (expr, kind, _) = arg_expr(&f, d);
    let tys = bare_tys(kind);
    let ty = tys[d.pick(tys.len())];
    let tail = if ty.is_empty() { String::new() } else { format!(":{ty}") };
    let arg1 = if d.chance(25) { format!("k = {expr}") } else { expr.clone() };
    let (lit, args, label, single): (String, Vec<String>, &str, bool) = match d.weighted(&[40, 15, 12, 13, 10, 10]) {
        0 => {
            // index out of range with exactly one argument, bare placeholder
            let idx = ["1", "2", "70000", "18446744073709551615"][d.weighted(&[5, 2, 2, 1])];
            (format!("{{{idx}{tail}}}"), vec![arg1], "neg=index_out_of_range_one_argument", true)
        }
        1 => (format!("{{{}{tail}}}", ["0", "", "1"][d.pick(3)]), vec![], "neg=index_without_arguments", false),
        2 => {
            let f2 = sh.fields[d.pick(sh.fields.len())].clone();
            let (e2, _, _) = arg_expr(&f2, d);
            (format!("{{0}}{{1}}{{2{tail}}}"), vec![f.name.clone(), e2], "neg=index_out_of_range_two_arguments", false)
        }
        3 => (format!("{{1:>5}}"), vec![arg1], "neg=index_out_of_range_with_modifier", false),
        4 => {
            let f2 = sh.fields[d.pick(sh.fields.len())].clone();
            (format!("{{{tail}}}"), vec![expr.clone(), f2.name.clone()], "neg=unused_positional_argument", false)
        }
        _ => (format!("{{{}}}", f.name), vec![format!("zz = {}", f.name)], "neg=unused_named_argument", false),
    };
    let single_model = single;
    let mut c = GenCase::new(sh.render(Some(&attr_args(&lit, &args)), "", "    let _ = (o, v);\n"));
    c.expect_compile = false;
    c.runnable = false;
    c.labels = vec!["class=negative".into(), label.into(), format!("trait={}", sh.tr), format!("kind={}", if sh.is_enum { "enum" } else { "struct" })];
    c.nontrivial = true;
    c.meta = json!({"class": "negative", "literal": lit, "single_arg_bare_out_of_range": single_model, "nargs": args.len()});
    c
}

fn build(d: &mut Dice) -> GenCase {
    match d.weighted(&[10, 36, 38, 16]) {
        0 => build_implicit(d),
        1 => build_subst(d),
        2 => build_inert(d),
        _ => build_negative(d),
    }
}

fn classify(c: &GenCase, r: &CaseResult, f: &Finding) -> Option<String> {
    if !c.expect_compile {
        // defect model: with exactly one argument and a bare placeholder the index is never looked at, the
        // attribute is turned into a delegation to that argument and therefore compiles
        if r.compiled && c.meta["single_arg_bare_out_of_range"] == json!(true) && c.meta["nargs"] == json!(1) {
            return Some(SIG_INDEX.to_string());
        }
        return None;
    }
    let rest = f.summary.strip_prefix("run-time oracle failed: [")?;
    let (sig, _) = rest.split_once(']')?;
    (sig == SIG_PTR && c.meta["ptr_model"] == json!(true)).then(|| SIG_PTR.to_string())
}

pub fn prop() -> DiceProp {
    let ns = spec_grid().len();
    DiceProp {
        crate_name: "gen_c05",
        prelude: prelude(),
        crate_attrs: String::new(),
        nightly: false,
        check_only: false,
        ndice: 96,
        quick: (2500, 1),
        thorough: (4000, 8),
        build,
        fixed: no_fixed,
        classify,
        rule: format!(
            "struct / enum variant with 1..3 fields (i32, f64, &str, &i32, usize; positional or named) deriving one of the 9 fmt traits; classes: implicit (8 Display-like traits, single field, no attribute), subst (literal = one bare placeholder in any of the 9 placeholder traits naming a field, its only positional argument as `{{}}`/`{{0}}`, its only named argument by name or by position; argument = field, expression, method call, format_args!), inert (one placeholder with exactly one of align / fill / sign / # / 0 / width / precision / x? / X?; bare placeholder plus text or escape; two placeholders; none), negative (index out of range with 0, 1, 2 arguments, unused positional / named argument); every runnable case is evaluated under {ns} outer specs (each single modifier, all-pairs over fill+align x sign x # x 0 x width x precision, 40 fixed random; for derive(Debug) under ?, x? and X?): subst/implicit must equal the same spec applied to the argument under the placeholder's trait, inert must equal the flag-free output which must equal format!(literal, args); non-trivial = the argument is not a format_args! (which ignores flags itself): the grid always contains specs that change its text (measured per case as `sensitive`); distinct by program text"
        ),
        assumptions: vec![
            "format! of the installed stable toolchain applied to the argument directly is the reference".into(),
            "names of outer bindings that are not fields (`{CONST}`) are not generated: the statement does not say which class they belong to".into(),
        ],
        floors: vec![
            ("class=implicit".into(), 0.03),
            ("class=subst".into(), 0.25),
            ("class=inert".into(), 0.25),
            ("class=negative".into(), 0.1),
            ("arg=field_by_name".into(), 0.1),
            ("arg=positional_field".into(), 0.03),
            ("arg=positional_expression".into(), 0.08),
            ("arg=named_matching".into(), 0.05),
            ("arg=named_by_position".into(), 0.05),
            ("one_modifier".into(), 0.08),
            ("surrounding_text".into(), 0.05),
            ("two_placeholders".into(), 0.05),
            ("neg=index_out_of_range_one_argument".into(), 0.03),
            ("neg=index_without_arguments".into(), 0.01),
            ("trait=Debug".into(), 0.05),
            ("kind=enum".into(), 0.15),
        ],
        shards: 0,
    }
}

pub fn run(ctx: &super::core::Ctx) -> super::core::Report {
    super::progprop::run(&prop(), ctx)
}

pub fn replay(ctx: &super::core::Ctx, case: &serde_json::Value) -> super::core::Report {
    super::progprop::replay(&prop(), ctx, case)
}

// "Universal" field types: they implement every trait a derive_more derive may require of a field, so that a
// generated type definition meets "its field types meet the documented trait requirements" by construction.
// U: concrete; L<'a>: carries a lifetime; A<N>: carries a const parameter. All are non-zero-sized.
pub mod uni {
    use core::fmt;
    use core::ops::*;
    use core::str::FromStr;

    #[derive(Clone, Copy, Debug, Default, PartialEq, Eq, PartialOrd, Ord, Hash)]
    pub struct U(pub i64);
    #[derive(Clone, Copy, Debug, PartialEq, Eq, PartialOrd, Ord, Hash)]
    pub struct L<'a>(pub &'a i64, pub i64);
    #[derive(Clone, Copy, Debug, PartialEq, Eq, PartialOrd, Ord, Hash)]
    pub struct A<const N: usize>(pub [i64; N], pub i64);

    pub static ZERO: i64 = 0;
    impl<'a> Default for L<'a> { fn default() -> Self { L(&ZERO, 0) } }
    impl<const N: usize> Default for A<N> { fn default() -> Self { A([0; N], 0) } }

    #[derive(Debug, Clone, PartialEq)]
    pub struct UErr;
    impl fmt::Display for UErr { fn fmt(&self, f: &mut fmt::Formatter<'_>) -> fmt::Result { f.write_str("uerr") } }
    impl std::error::Error for UErr {}

    macro_rules! universal {
        ([$($g:tt)*] $t:ty, |$s:ident| $val:expr, |$v:ident| $mk:expr) => {
            impl<$($g)*> $t { pub fn val(&self) -> i64 { let $s = self; $val } pub fn mk($v: i64) -> Self { $mk } }
            universal!(@bin [$($g)*] $t; Add add, Sub sub, BitAnd bitand, BitOr bitor, BitXor bitxor, Mul mul, Div div, Rem rem, Shr shr, Shl shl);
            universal!(@assign [$($g)*] $t; AddAssign add_assign, SubAssign sub_assign, BitAndAssign bitand_assign, BitOrAssign bitor_assign, BitXorAssign bitxor_assign,
                MulAssign mul_assign, DivAssign div_assign, RemAssign rem_assign, ShrAssign shr_assign, ShlAssign shl_assign);
            universal!(@scalar [$($g)*] $t; Mul mul, Div div, Rem rem, Shr shr, Shl shl);
            universal!(@scalar_assign [$($g)*] $t; MulAssign mul_assign, DivAssign div_assign, RemAssign rem_assign, ShrAssign shr_assign, ShlAssign shl_assign);
            impl<$($g)*> Not for $t { type Output = Self; fn not(self) -> Self { Self::mk(!self.val()) } }
            impl<$($g)*> Neg for $t { type Output = Self; fn neg(self) -> Self { Self::mk(self.val().wrapping_neg()) } }
            impl<$($g)*> core::iter::Sum for $t { fn sum<I: Iterator<Item = Self>>(i: I) -> Self { Self::mk(i.map(|x| x.val()).fold(0i64, |a, b| a.wrapping_add(b))) } }
            impl<$($g)*> core::iter::Product for $t { fn product<I: Iterator<Item = Self>>(i: I) -> Self { Self::mk(i.map(|x| x.val()).fold(1i64, |a, b| a.wrapping_mul(b))) } }
            universal!(@fmt [$($g)*] $t; Display, Binary, Octal, LowerHex, UpperHex, LowerExp, UpperExp);
            impl<$($g)*> fmt::Pointer for $t { fn fmt(&self, f: &mut fmt::Formatter<'_>) -> fmt::Result { fmt::Pointer::fmt(&(self as *const Self), f) } }
            impl<$($g)*> FromStr for $t { type Err = UErr; fn from_str(s: &str) -> Result<Self, UErr> { s.parse::<i64>().map(Self::mk).map_err(|_| UErr) } }
            impl<$($g)*> std::error::Error for $t {}
            impl<$($g)*> From<i64> for $t { fn from(v: i64) -> Self { Self::mk(v) } }
            impl<$($g)*> From<$t> for i64 { fn from(v: $t) -> i64 { v.val() } }
            impl<$($g)*> AsRef<i64> for $t { fn as_ref(&self) -> &i64 { self.slot() } }
            impl<$($g)*> AsMut<i64> for $t { fn as_mut(&mut self) -> &mut i64 { self.slot_mut() } }
            impl<$($g)*> Deref for $t { type Target = i64; fn deref(&self) -> &i64 { self.slot() } }
            impl<$($g)*> DerefMut for $t { fn deref_mut(&mut self) -> &mut i64 { self.slot_mut() } }
            impl<$($g)*> Index<usize> for $t { type Output = i64; fn index(&self, _: usize) -> &i64 { self.slot() } }
            impl<$($g)*> IndexMut<usize> for $t { fn index_mut(&mut self, _: usize) -> &mut i64 { self.slot_mut() } }
            impl<$($g)*> IntoIterator for $t { type Item = i64; type IntoIter = core::option::IntoIter<i64>; fn into_iter(self) -> Self::IntoIter { Some(self.val()).into_iter() } }
            impl<'it, $($g)*> IntoIterator for &'it $t { type Item = &'it i64; type IntoIter = core::option::IntoIter<&'it i64>; fn into_iter(self) -> Self::IntoIter { Some(self.slot()).into_iter() } }
            impl<'it, $($g)*> IntoIterator for &'it mut $t { type Item = &'it mut i64; type IntoIter = core::option::IntoIter<&'it mut i64>; fn into_iter(self) -> Self::IntoIter { Some(self.slot_mut()).into_iter() } }
        };
        // one trait at a time (the generics list cannot be repeated inside another repetition)
        (@bin $g:tt $t:ty; $tr:ident $m:ident $(, $rtr:ident $rm:ident)*) => { universal!(@bin1 $g $t; $tr $m); universal!(@bin $g $t; $($rtr $rm),*); };
        (@bin $g:tt $t:ty;) => {};
        (@bin1 [$($g:tt)*] $t:ty; $tr:ident $m:ident) => {
            impl<$($g)*> $tr for $t { type Output = Self; fn $m(self, r: Self) -> Self { Self::mk(self.val().wrapping_mul(31).wrapping_add(r.val())) } }
        };
        (@assign $g:tt $t:ty; $tr:ident $m:ident $(, $rtr:ident $rm:ident)*) => { universal!(@assign1 $g $t; $tr $m); universal!(@assign $g $t; $($rtr $rm),*); };
        (@assign $g:tt $t:ty;) => {};
        (@assign1 [$($g:tt)*] $t:ty; $tr:ident $m:ident) => {
            impl<$($g)*> $tr for $t { fn $m(&mut self, r: Self) { *self = Self::mk(self.val().wrapping_mul(31).wrapping_add(r.val())); } }
        };
        (@scalar $g:tt $t:ty; $tr:ident $m:ident $(, $rtr:ident $rm:ident)*) => { universal!(@scalar1 $g $t; $tr $m); universal!(@scalar $g $t; $($rtr $rm),*); };
        (@scalar $g:tt $t:ty;) => {};
        (@scalar1 [$($g:tt)*] $t:ty; $tr:ident $m:ident) => {
            impl<$($g)*> $tr<i32> for $t { type Output = Self; fn $m(self, r: i32) -> Self { Self::mk(self.val().wrapping_mul(17).wrapping_add(r as i64)) } }
        };
        (@scalar_assign $g:tt $t:ty; $tr:ident $m:ident $(, $rtr:ident $rm:ident)*) => { universal!(@scalar_assign1 $g $t; $tr $m); universal!(@scalar_assign $g $t; $($rtr $rm),*); };
        (@scalar_assign $g:tt $t:ty;) => {};
        (@scalar_assign1 [$($g:tt)*] $t:ty; $tr:ident $m:ident) => {
            impl<$($g)*> $tr<i32> for $t { fn $m(&mut self, r: i32) { *self = Self::mk(self.val().wrapping_mul(17).wrapping_add(r as i64)); } }
        };
        (@fmt $g:tt $t:ty; $tr:ident $(, $rtr:ident)*) => { universal!(@fmt1 $g $t; $tr); universal!(@fmt $g $t; $($rtr),*); };
        (@fmt $g:tt $t:ty;) => {};
        (@fmt1 [$($g:tt)*] $t:ty; $tr:ident) => {
            impl<$($g)*> fmt::$tr for $t { fn fmt(&self, f: &mut fmt::Formatter<'_>) -> fmt::Result { fmt::$tr::fmt(&self.val(), f) } }
        };
    }
    impl U { pub fn slot(&self) -> &i64 { &self.0 } pub fn slot_mut(&mut self) -> &mut i64 { &mut self.0 } }
    impl<'a> L<'a> { pub fn slot(&self) -> &i64 { &self.1 } pub fn slot_mut(&mut self) -> &mut i64 { &mut self.1 } }
    impl<const N: usize> A<N> { pub fn slot(&self) -> &i64 { &self.1 } pub fn slot_mut(&mut self) -> &mut i64 { &mut self.1 } }
    universal!([] U, |s| s.0, |v| U(v));
    universal!(['a] L<'a>, |s| s.1, |v| L(&ZERO, v));
    universal!([const N: usize] A<N>, |s| s.1, |v| A([0; N], v));

    pub trait Tr { type A; }
    impl Tr for U { type A = U; }
    #[derive(Clone, Copy, Debug, PartialEq)]
    pub enum Void {}
}
pub use uni::{U, L, A, UErr, Tr, Void};

//! FROZEN COPY of /repo/impl/src/parsing.rs (non-test part) as of /repo commit f344eaa.
//!
//! It is the *defect model* of the recorded C16 findings (c16-cast-to-generic-type-split, c16-binary-or-taken-for-closure,
//! c16-less-than-taken-for-qualified-path): a disagreement between the tree's splitter and Rust's grammar is attributed to
//! one of them only if this copy splits the list in exactly the same way, i.e. the behaviour is the recorded one and not a
//! new one that merely involves the same tokens. Refresh this file when a `fix:` commit changes the splitter.
//! Common parsing utilities for derive macros.
//!
//! Fair parsing of [`syn::Expr`] requires [`syn`]'s `full` feature to be enabled, which unnecessary
//! increases compile times. As we don't have complex AST manipulation, usually requiring only
//! understanding where syntax item begins and ends, simpler manual parsing is implemented.

use proc_macro2::{Delimiter, Spacing, TokenStream, TokenTree};
use quote::ToTokens;
use syn::{
    buffer::Cursor,
    parse::{Parse, ParseStream},
};

/// [`syn::Expr`] [`Parse`]ing polyfill.
#[derive(Clone, Debug)]
pub(crate) enum Expr {
    /// [`syn::Expr::Path`] of length 1 [`Parse`]ing polyfill.
    Ident(syn::Ident),

    /// Every other [`syn::Expr`] variant.
    Other(TokenStream),
}

impl Expr {
    /// Returns a [`syn::Ident`] in case this [`Expr`] is represented only by it.
    ///
    /// [`syn::Ident`]: struct@syn::Ident
    pub(crate) fn ident(&self) -> Option<&syn::Ident> {
        match self {
            Self::Ident(ident) => Some(ident),
            Self::Other(_) => None,
        }
    }
}

impl From<syn::Ident> for Expr {
    fn from(ident: syn::Ident) -> Self {
        Self::Ident(ident)
    }
}

impl Parse for Expr {
    fn parse(input: ParseStream) -> syn::Result<Self> {
        if let Ok(ident) = input.step(|c| {
            c.ident()
                .filter(|(_, c)| c.eof() || punct(',')(*c).is_some())
                .ok_or_else(|| syn::Error::new(c.span(), "expected `ident(,|eof)`"))
        }) {
            Ok(Self::Ident(ident))
        } else {
            input.step(|c| {
                take_until1(
                    alt([
                        &mut seq([
                            &mut path_sep,
                            &mut balanced_pair(punct('<'), punct('>')),
                        ]),
                        &mut seq([
                            &mut balanced_pair(punct('<'), punct('>')),
                            &mut path_sep,
                        ]),
                        &mut seq([
                            &mut balanced_pair(punct('|'), punct('|')),
                            &mut closure_return,
                        ]),
                        &mut balanced_pair(punct('|'), punct('|')),
                        &mut token_tree,
                    ]),
                    punct(','),
                )(*c)
                .map(|(stream, cursor)| (Self::Other(stream), cursor))
                .ok_or_else(|| syn::Error::new(c.span(), "failed to parse expression"))
            })
        }
    }
}

impl PartialEq<syn::Ident> for Expr {
    fn eq(&self, other: &syn::Ident) -> bool {
        self.ident().is_some_and(|i| i == other)
    }
}

impl ToTokens for Expr {
    fn to_tokens(&self, tokens: &mut TokenStream) {
        match self {
            Self::Ident(ident) => ident.to_tokens(tokens),
            Self::Other(other) => other.to_tokens(tokens),
        }
    }
}

/// Result of parsing.
type ParsingResult<'a> = Option<(TokenStream, Cursor<'a>)>;

/// Tries to parse a [`token::PathSep`].
///
/// [`token::PathSep`]: struct@syn::token::PathSep
pub fn path_sep(c: Cursor<'_>) -> ParsingResult<'_> {
    seq([
        &mut punct_with_spacing(':', Spacing::Joint),
        &mut punct(':'),
    ])(c)
}

/// Tries to parse an explicit return type of a closure (`-> Type`) along with the closure's body,
/// which is always a block in this case. Commas of the type's generic arguments don't end the
/// expression.
pub fn closure_return(c: Cursor<'_>) -> ParsingResult<'_> {
    let (mut out, mut c) = seq([
        &mut punct_with_spacing('-', Spacing::Joint),
        &mut punct('>'),
    ])(c)?;

    loop {
        let (tt, cursor) = c.token_tree()?;
        let is_body = matches!(
            &tt,
            TokenTree::Group(g) if g.delimiter() == Delimiter::Brace,
        );
        out.extend(tt.into_token_stream());
        c = cursor;
        if is_body {
            return Some((out, c));
        }
    }
}

/// Tries to parse a [`punct`] with [`Spacing`].
pub fn punct_with_spacing(
    p: char,
    spacing: Spacing,
) -> impl FnMut(Cursor<'_>) -> ParsingResult<'_> {
    move |c| {
        c.punct().and_then(|(punct, c)| {
            (punct.as_char() == p && punct.spacing() == spacing)
                .then(|| (punct.into_token_stream(), c))
        })
    }
}

/// Tries to parse a [`Punct`].
///
/// [`Punct`]: proc_macro2::Punct
pub fn punct(p: char) -> impl FnMut(Cursor<'_>) -> ParsingResult<'_> {
    move |c| {
        c.punct().and_then(|(punct, c)| {
            (punct.as_char() == p).then(|| (punct.into_token_stream(), c))
        })
    }
}

/// Tries to parse any [`TokenTree`].
///
/// [`TokenTree`]: proc_macro2::TokenTree
pub fn token_tree(c: Cursor<'_>) -> ParsingResult<'_> {
    c.token_tree().map(|(tt, c)| (tt.into_token_stream(), c))
}

/// Parses until balanced amount of `open` and `close` or eof.
///
/// [`Cursor`] should be pointing **right after** the first `open`ing.
pub fn balanced_pair(
    mut open: impl FnMut(Cursor<'_>) -> ParsingResult<'_>,
    mut close: impl FnMut(Cursor<'_>) -> ParsingResult<'_>,
) -> impl FnMut(Cursor<'_>) -> ParsingResult<'_> {
    move |c| {
        let (mut out, mut c) = open(c)?;
        let mut count = 1;

        while count != 0 {
            // `->` (e.g. in `f::<fn(A) -> B, C>()`) is a single token, its `>` closes nothing.
            let (stream, cursor) = if let Some(arrow) = seq([
                &mut punct_with_spacing('-', Spacing::Joint),
                &mut punct('>'),
            ])(c)
            {
                arrow
            } else if let Some(closing) = close(c) {
                count -= 1;
                closing
            } else if let Some(opening) = open(c) {
                count += 1;
                opening
            } else {
                let (tt, c) = c.token_tree()?;
                (tt.into_token_stream(), c)
            };
            out.extend(stream);
            c = cursor;
        }

        Some((out, c))
    }
}

/// Tries to execute the provided sequence of `parsers`.
pub fn seq<const N: usize>(
    mut parsers: [&mut dyn FnMut(Cursor<'_>) -> ParsingResult<'_>; N],
) -> impl FnMut(Cursor<'_>) -> ParsingResult<'_> + '_ {
    move |c| {
        parsers.iter_mut().try_fold(
            (TokenStream::new(), c),
            |(mut out, mut c), parser| {
                let (stream, cursor) = parser(c)?;
                out.extend(stream);
                c = cursor;
                Some((out, c))
            },
        )
    }
}

/// Tries to execute the first successful parser.
pub fn alt<const N: usize>(
    mut parsers: [&mut dyn FnMut(Cursor<'_>) -> ParsingResult<'_>; N],
) -> impl FnMut(Cursor<'_>) -> ParsingResult<'_> + '_ {
    move |c| parsers.iter_mut().find_map(|parser| parser(c))
}

/// Parses with `basic` while `until` fails. Returns [`None`] in case
/// `until` succeeded initially or `basic` never succeeded. Doesn't consume
/// tokens parsed by `until`.
pub fn take_until1<P, U>(
    mut parser: P,
    mut until: U,
) -> impl FnMut(Cursor<'_>) -> ParsingResult<'_>
where
    P: FnMut(Cursor<'_>) -> ParsingResult<'_>,
    U: FnMut(Cursor<'_>) -> ParsingResult<'_>,
{
    move |mut cursor| {
        let mut out = TokenStream::new();
        let mut parsed = false;

        loop {
            if cursor.eof() || until(cursor).is_some() {
                return parsed.then_some((out, cursor));
            }

            let (stream, c) = parser(cursor)?;
            out.extend(stream);
            cursor = c;
            parsed = true;
        }
    }
}

//! Coverage-guided differential fuzzing of the format-argument splitter (impl/src/parsing.rs) against syn's full
//! expression parser. Bytes are decoded through a token dictionary with nesting operators so that the fuzzer reaches
//! `::<`, `>::`, `|..|`, `as`, shifts and closures instead of dying in the tokenizer. Oracle = check C16.
#![no_main]
use libfuzzer_sys::fuzz_target;

fuzz_target!(|data: &[u8]| {
    let text = dmv::v::p16::fuzz_decode(data);
    if let Some((what, expected, observed, sig)) = dmv::v::p16::check_text(&text) {
        if sig.as_deref().is_some_and(dmv::v::fuzzrun::is_known_sig_or_combo) {
            return;
        }
        panic!("C16 {what}: `{text}`: expected {expected}; observed {observed}");
    }
});

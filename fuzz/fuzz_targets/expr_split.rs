//! Coverage-guided differential fuzzing of the format-argument splitter (impl/src/parsing.rs) against syn's full
//! expression parser. Bytes are decoded through a token dictionary with nesting operators so that the fuzzer reaches
//! `::<`, `>::`, `|..|`, `as`, shifts and closures instead of dying in the tokenizer. Oracle = check C16.
#![no_main]
use libfuzzer_sys::fuzz_target;

const DICT: [&str; 96] = [
    "a", "b", "_0", "_1", "x", "self", "S", "T", "K", "V", "M", "f", "m", "u8", "i32", "usize", "String", "Vec", "Box", "Option",
    "1", "2", "0x1f", "1.5", "\"s\"", "'c'", "b\"x\"", "true", "r#type", "crate", "Self", "N",
    ",", ",", ",", "::", "::", "<", ">", "<", ">", "<<", ">>", "<=", ">=", "==", "!=", "=", "|", "||", "&", "&&", "+", "-", "*", "/", "%", "^", "!", "?", ".", "..", "..=", ":", ";", "->", "=>", "#", "@", "'a",
    "as", "as", "fn", "dyn", "move", "if", "else", "match", "loop", "break", "return", "unsafe", "let", "mut", "ref", "in", "for", "while", "const", "where", "impl", "struct", "_", "$", "k =", "al =",
];

fn decode(data: &[u8]) -> String {
    let mut out = String::new();
    let mut stack: Vec<char> = vec![];
    for &b in data.iter().take(400) {
        match b {
            0..=95 => {
                out.push_str(DICT[b as usize]);
                out.push(' ');
            }
            96..=111 => {
                let (o, c) = [('(', ')'), ('[', ']'), ('{', '}')][(b as usize - 96) % 3];
                if stack.len() < 24 {
                    out.push(o);
                    stack.push(c);
                }
            }
            112..=127 => {
                if let Some(c) = stack.pop() {
                    out.push(c);
                    out.push(' ');
                }
            }
            _ => {
                out.push_str(DICT[(b as usize) % 96]);
                out.push(' ');
            }
        }
    }
    while let Some(c) = stack.pop() {
        out.push(c);
    }
    out
}

fuzz_target!(|data: &[u8]| {
    let text = decode(data);
    if let Some((what, expected, observed, sig)) = dmv::v::p16::check_text(&text) {
        if sig.as_deref().is_some_and(dmv::v::fuzzrun::is_known_sig_or_combo) {
            return;
        }
        panic!("C16 {what}: `{text}`: expected {expected}; observed {observed}");
    }
});

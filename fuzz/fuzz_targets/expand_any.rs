//! Coverage-guided robustness fuzzing of all 50 expanders: the input bytes are the dice of the C18 generators
//! (derive, item shape, attribute token trees from the per-derive vocabulary + mutations), so libFuzzer mutates the
//! *decisions* of a structure-aware generator. Oracle = check C18 (Ok / Err / deliberate panic) and C19 (expanding twice
//! gives the same tokens).
#![no_main]
use libfuzzer_sys::fuzz_target;

fuzz_target!(|data: &[u8]| {
    if data.len() < 4 {
        return;
    }
    let dice: Vec<u16> = data.chunks(2).map(|c| u16::from_le_bytes([c[0], *c.get(1).unwrap_or(&0)])).collect();
    if let Some((derive, item, msg, sig)) = dmv::v::p18::fuzz_one(dice) {
        if sig.as_deref().is_some_and(dmv::v::fuzzrun::is_known_sig) {
            return;
        }
        panic!("C18 internal failure deriving {derive} on `{item}`: {msg}");
    }
});

//! Coverage-guided differential fuzzing of derive_more's format-literal parser against rustc's own
//! (`rustc_parse_format`, linked through rustc_private). Oracle = stage A / reject clause of check C03 plus
//! "no panic" (C18). Recorded known findings are tolerated (counted) so that the campaign keeps searching.
#![no_main]
#![feature(rustc_private)]
extern crate rustc_driver;
extern crate rustc_parse_format;

use dmv::v::lit::{parse_ref_line, RefParse};
use libfuzzer_sys::fuzz_target;
use rustc_parse_format::*;

fn hex(s: &str) -> String {
    s.bytes().map(|b| format!("{b:02x}")).collect()
}

fn count(c: &Count<'_>) -> String {
    match c {
        Count::CountIs(n) => format!("i{n}"),
        Count::CountIsName(n, _) => format!("a{}", hex(n)),
        Count::CountIsParam(n) => format!("p{n}"),
        Count::CountIsStar(n) => format!("s{n}"),
        Count::CountImplied => "-".to_string(),
    }
}

/// same line protocol as the `fmtref` service
fn reference(s: &str) -> RefParse {
    let mut parser = Parser::new(s, None, None, false, ParseMode::Format);
    let mut parts: Vec<String> = Vec::new();
    while let Some(piece) = parser.next() {
        if let Piece::NextArgument(a) = piece {
            let pos = match a.position {
                Position::ArgumentImplicitlyIs(n) => format!("i{n}"),
                Position::ArgumentIs(n) => format!("n{n}"),
                Position::ArgumentNamed(n) => format!("a{}", hex(n)),
            };
            let f = &a.format;
            let fill = match f.fill {
                None => "-".to_string(),
                Some(c) => format!("{:x}", c as u32),
            };
            let align = match f.align {
                Alignment::AlignLeft => "<",
                Alignment::AlignRight => ">",
                Alignment::AlignCenter => "^",
                Alignment::AlignUnknown => "-",
            };
            let sign = match f.sign {
                None => "-",
                Some(Sign::Plus) => "+",
                Some(Sign::Minus) => "m",
            };
            let dhex = match f.debug_hex {
                None => "-",
                Some(DebugHex::Lower) => "x",
                Some(DebugHex::Upper) => "X",
            };
            parts.push(format!(
                "{pos};{fill};{align};{sign};{};{};{dhex};{};{};{}",
                f.alternate as u8,
                f.zero_pad as u8,
                count(&f.width),
                count(&f.precision),
                hex(f.ty)
            ));
        }
    }
    let line = if !parser.errors.is_empty() { "E".to_string() } else { format!("P{}", parts.join("|")) };
    parse_ref_line(&line).unwrap_or(RefParse::Reject)
}

fuzz_target!(|data: &[u8]| {
    let s = String::from_utf8_lossy(data).to_string();
    if s.len() > 4096 {
        return;
    }
    let r = reference(&s);
    if let Some((stage, expected, observed, sig)) = dmv::v::p03::check_literal(&s, &r) {
        if sig.as_deref().is_some_and(dmv::v::fuzzrun::is_known_sig) {
            return;
        }
        panic!("C03 stage {stage}: literal {s:?}: expected {expected}; observed {observed}");
    }
});

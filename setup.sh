#!/usr/bin/env bash
# MANIFEST.setup_cmd: builds the harness and helper binaries from files on disk only (offline).
set -eu
cd "$(dirname "${BASH_SOURCE[0]}")"
./check --setup
